// Package c04 checks: authenticated Shadowsocks 2022 UDP packets are delivered at most once and
// fresh ones are never refused.
//
// The real ss2022 UDP server (SessionInfo -> NewUnpacker -> UnpackInPlace, with a session table
// kept the way the relay service keeps it) and the real client unpacker receive packets that were
// produced by the real packers and by an independent encoder written from the SIP022 text (so
// that packet ids, timestamps, types and session ids can be chosen freely). A modelled network
// (a harness queue, or simnet UDP with duplication/delay/corruption in some runs) delivers them in
// generated orders, with the fake clock advanced between arrivals, and an attacker interleaves
// forged, stale, wrong-type, foreign-key, foreign-session and truncated packets.
//
// Oracle: a reference model per session (set of delivered ids + maximum). See expectServer and
// expectClient for the clauses.
package c04

import (
	"encoding/binary"
	"fmt"
	"math"
	"net/netip"
	"time"

	"github.com/database64128/shadowsocks-go/conn"
	"github.com/database64128/shadowsocks-go/ss2022"
	"github.com/database64128/shadowsocks-go/zerocopy"

	"verifsim/props/core"
	"verifsim/props/util"
	"verifsim/sim/simnet"
	"verifsim/sim/simrt"
)

var windowMenu = []uint64{1, 2, 63, 64, 65, 128, 256, 1000}

func init() {
	probes := []string{
		"c04.mode.server", "c04.mode.client", "c04.mode.filter", "c04.net.queue", "c04.net.simnet",
		"c04.src.real", "c04.src.harness", "c04.multi-user",
		"c04.id.zero", "c04.id.max-u64", "c04.id.block-edge", "c04.id.ring-wrap", "c04.id.window-edge-inside",
		"c04.id.window-edge-outside", "c04.id.jump>=ring",
		"c04.v.accept.first", "c04.v.accept.ahead", "c04.v.accept.in-window", "c04.v.reject.replay", "c04.v.behind-window",
		"c04.v.reject.stale", "c04.v.ts-band", "c04.v.accept.skewed-30s",
		"c04.atk.forged-body", "c04.atk.forged-tag", "c04.atk.forged-sep", "c04.atk.stale", "c04.atk.wrong-type",
		"c04.atk.wrong-type-layout", "c04.atk.foreign-key", "c04.atk.foreign-sid", "c04.atk.truncated", "c04.atk.garbage",
		"c04.atk.unknown-user", "c04.atk.wrong-csid", "c04.atk.new-ssid", "c04.atk.exact-replay", "c04.atk.ahead-of-window",
		"c04.cli.established", "c04.cli.change-accepted", "c04.cli.change-refused<60s", "c04.cli.old-session-accepted",
		"c04.cli.old-session-replay-rejected", "c04.cli.forgotten-session-packet", "c04.cli.change-must-accept",
		"c04.flt.isok-only", "c04.mode.exhaustive6",
	}
	for _, w := range windowMenu {
		probes = append(probes, fmt.Sprintf("c04.w.%d", w))
	}
	core.Register(&core.Prop{
		ID:           "C04",
		Run:          Run,
		MaxSteps:     200000,
		QuickRuns:    14000,
		ThoroughSecs: 400,
		Rule: "one run = one window size, key length, single/multi-user server, padding policies, one generated arrival history of 5-200 packet ids " +
			"(boundary-biased: 0, 64-bit block edges, ring multiples, window edge, 2^64-1) that drives SlidingWindowFilter directly (Add and IsOk+MustAdd) and then " +
			"either 1-3 client sessions against the real UDP server or 1-5 server sessions against the real client unpacker, over a harness queue or simnet UDP " +
			"(dup/delay/corrupt/drop), with clock steps around 30/60 s and attacker packets interleaved; non-trivial = at least one authentic packet was delivered " +
			"AND at least one replay or attacker packet was presented; distinct = distinct (window, mode, transport, sessions, sources, history-length bucket, attacker kinds, id classes) shape",
		Real: []string{"ss2022 (slidingwindow, packet, udp, header, crypto, credstore)", "socks5/addr", "conn/addr"},
		Stub: []string{"network (harness queue or simnet UDP)", "crypto/rand (seeded PRNG)", "math/rand/v2 (choice tape)", "clock (synctest)", "relay session table (mirrored in the harness: unpacker kept after the first successful unpack)"},
		Assumptions: []string{
			"session lifetime is the harness's (no NAT-timeout eviction at package level)",
			"timestamps in the (30 s, 31 s) granularity band are not judged",
			"packets of the previous server session that are still inside the window are not required to be delivered (only never twice)",
			"a new server session must be accepted only when more than 60 s passed since the last establishment, change or old-session packet; exactly 60 s is not judged",
		},
		ExpectProbes: probes,
	})
}

// pktMeta is the harness's ground truth about one datagram.
type pktMeta struct {
	kind      string
	authentic bool // right keys, type, session ids, untampered (the timestamp may still be off)
	sess      *peerSess
	id        uint64
	ts        int64
	payload   []byte
	addr      socksAddr
	data      []byte
}

// peerSess is one sending session: a client session in server mode, a server session in client mode.
type peerSess struct {
	idx    int
	sid    [8]byte
	real   bool
	k      *keys
	model  *sessModel
	gen    *idGen
	byID   map[uint64]*pktMeta // latest genuine datagram built per id
	packed []*pktMeta          // real packers: datagrams in the order packed
	cpack  zerocopy.ClientPacker
	spack  zerocopy.ServerPacker
	target conn.Addr
	source netip.AddrPort
	sent   bool
	throw  bool // attacker-only session id (never a genuine packet)
	// ids of authentic packets with an acceptable timestamp, in arrival order
	arrivals []uint64
}

type env struct {
	s      *simrt.Sim
	w      uint64
	client bool // client mode (server->client direction)

	users []*keys
	ipsk  []byte
	multi bool
	pad   ss2022.PaddingPolicy

	srv   *ss2022.UDPServer
	table map[uint64]zerocopy.ServerUnpacker

	cunp zerocopy.ClientUnpacker
	csid [8]byte

	// client-mode model of the client's view of server sessions
	cur, old   *peerSess
	hasChange  bool
	lastChange time.Time
	lastEvent  time.Time

	sessions       []*peerSess
	allSent        []*pktMeta
	deliveredBytes map[string]bool
	metaByData     map[string]*pktMeta
	accepted       int
	hostile        int
	atkKinds       map[string]bool
	payloadCtr     uint64
	scratch        []byte

	send func(m *pktMeta)
}

var (
	srvAddrPort = netip.AddrPortFrom(netip.MustParseAddr("10.0.1.1"), 8388)
	cliAddrPort = netip.AddrPortFrom(netip.MustParseAddr("10.0.2.1"), 40001)
)

func u64(b [8]byte) uint64 { return binary.BigEndian.Uint64(b[:]) }

func socksOfConnAddr(a conn.Addr) socksAddr {
	if a.IsIP() {
		return socksFromIP(a.IP().Unmap(), a.Port())
	}
	return socksFromDomain(a.Domain(), a.Port())
}

func bucket(n int) string {
	switch {
	case n <= 10:
		return "<=10"
	case n <= 40:
		return "<=40"
	case n <= 100:
		return "<=100"
	default:
		return "<=200"
	}
}

// Run is one simulated run.
func Run(s *simrt.Sim) {
	w := windowMenu[s.Choose(len(windowMenu))]
	s.Probe(fmt.Sprintf("c04.w.%d", w))
	n := util.Pick(s, []int{5, 8, 12, 20, 40, 80, 120, 200, -1})
	if n < 0 {
		n = 5 + s.Choose(196)
	}
	s.PSwitch = util.Pick(s, []int{8, 64, 160, 255})
	s.Param("window", fmt.Sprint(w))
	s.Param("history", fmt.Sprint(n))

	filterPhase(s, w, n)
	if s.Failed() {
		return
	}

	e := &env{s: s, w: w, table: map[uint64]zerocopy.ServerUnpacker{}, deliveredBytes: map[string]bool{}, metaByData: map[string]*pktMeta{}, atkKinds: map[string]bool{}}
	e.client = s.GenChance(128)
	keyLen := util.Pick(s, []int{16, 32})
	e.multi = s.GenChance(112)
	e.pad = util.Pick(s, []ss2022.PaddingPolicy{ss2022.NoPadding, ss2022.PadPlainDNS, ss2022.PadAll})
	useNet := s.GenChance(64)
	s.Param("mode", map[bool]string{false: "server", true: "client"}[e.client])
	s.Param("net", fmt.Sprint(useNet))
	s.Param("multi", fmt.Sprint(e.multi))

	// keys and the real server
	nUsers := 1
	if e.multi {
		s.Probe("c04.multi-user")
		nUsers = 1 + s.Choose(3)
		e.ipsk = make([]byte, keyLen)
		s.RandBytes(e.ipsk)
	}
	var ulm ss2022.UserLookupMap
	if e.multi {
		ulm = ss2022.UserLookupMap{}
	}
	for i := 0; i < nUsers; i++ {
		psk := make([]byte, keyLen)
		s.RandBytes(psk)
		e.users = append(e.users, newKeys(psk, e.ipsk))
		if e.multi {
			uc, err := ss2022.NewServerUserCipherConfig(fmt.Sprintf("user-%d", i), psk, true)
			if err != nil {
				s.HarnessError("user cipher config: %v", err)
				return
			}
			ulm[ss2022.PSKHash(psk)] = uc
		}
	}
	if e.multi {
		icc, err := ss2022.NewServerIdentityCipherConfig(e.ipsk, true)
		if err != nil {
			s.HarnessError("identity cipher config: %v", err)
			return
		}
		e.srv = ss2022.NewUDPServer(w, ss2022.UserCipherConfig{}, icc, e.pad)
		e.srv.ReplaceUserLookupMap(ulm)
	} else {
		ucc, err := ss2022.NewUserCipherConfig(e.users[0].psk, true)
		if err != nil {
			s.HarnessError("user cipher config: %v", err)
			return
		}
		e.srv = ss2022.NewUDPServer(w, ucc, ss2022.ServerIdentityCipherConfig{}, e.pad)
	}

	// transport
	var finish func()
	if useNet {
		s.Probe("c04.net.simnet")
		finish = e.setupNet()
	} else {
		s.Probe("c04.net.queue")
		e.send = func(m *pktMeta) { e.arrive(m.data) }
		finish = func() {}
	}

	mode := "server"
	if e.client {
		mode = "client"
		s.Probe("c04.mode.client")
		e.runClientMode(n)
	} else {
		s.Probe("c04.mode.server")
		e.runServerMode(n)
	}
	if s.Failed() {
		return
	}
	finish()
	if s.Failed() {
		return
	}

	// the arrival histories the receivers saw also drive the filter directly
	for _, ps := range e.sessions {
		if len(ps.arrivals) > 0 && !filterHistory(s, w, ps.arrivals) {
			return
		}
	}

	srcs := ""
	for _, ps := range e.sessions {
		if ps.real {
			srcs += "r"
		} else {
			srcs += "h"
		}
	}
	kinds := ""
	for _, k := range attackKinds {
		if e.atkKinds[k] {
			kinds += k[:2] + k[len(k)-1:] + ","
		}
	}
	s.Param("sessions", srcs)
	s.ShapeAdd(fmt.Sprintf("w%d %s net%v k%d m%v s%s n%s atk[%s]", w, mode, useNet, keyLen, e.multi, srcs, bucket(n), kinds))
	if e.accepted > 0 && e.hostile > 0 {
		s.SetNontrivial()
	}
}

// --- direct filter phase --------------------------------------------------------------------

// filterCheck judges one verdict of a directly driven filter against the reference model.
func filterCheck(s *simrt.Sim, w uint64, api string, m *sessModel, id uint64, got bool) bool {
	exp, rel := m.judge(id)
	switch {
	case exp == mustReject && got:
		s.Fail("c04.filter.delivered-twice{"+api+"}", "SlidingWindowFilter(size %d) %s accepted counter %d a second time (maximum accepted so far %d)", w, api, id, m.max)
		return false
	case exp == mustAccept && !got:
		s.Fail("c04.filter.fresh-refused{"+rel+","+api+"}", "SlidingWindowFilter(size %d) %s refused counter %d which was never accepted and is %s (maximum accepted so far %d, has=%v)", w, api, id, rel, m.max, m.has)
		return false
	}
	if got {
		m.record(id)
	}
	return true
}

func filterPhase(s *simrt.Sim, w uint64, n int) {
	s.Probe("c04.mode.filter")
	mAdd, mOk := newSessModel(w), newSessModel(w)
	g := &idGen{s: s, w: w, m: mAdd}
	if s.GenChance(64) {
		g.cap = w + 264
	}
	fAdd := ss2022.NewSlidingWindowFilter(w)
	fOk := ss2022.NewSlidingWindowFilter(w)
	for i := 0; i < n; i++ {
		if s.GenChance(40) {
			// a packet that passes IsOk but then fails authentication: no MustAdd
			fOk.IsOk(g.attackID())
			s.Probe("c04.flt.isok-only")
		}
		id := g.next()
		probeID(s, mAdd, id)
		if !filterCheck(s, w, "Add", mAdd, id, fAdd.Add(id)) {
			return
		}
		ok := fOk.IsOk(id)
		if ok {
			fOk.MustAdd(id)
		}
		if !filterCheck(s, w, "IsOk+MustAdd", mOk, id, ok) {
			return
		}
	}
	if s.GenChance(20) {
		filterExhaustive(s, w)
	}
}

// filterHistory drives fresh filters with one arrival history.
func filterHistory(s *simrt.Sim, w uint64, ids []uint64) bool {
	mAdd, mOk := newSessModel(w), newSessModel(w)
	fAdd := ss2022.NewSlidingWindowFilter(w)
	fOk := ss2022.NewSlidingWindowFilter(w)
	for _, id := range ids {
		if !filterCheck(s, w, "Add", mAdd, id, fAdd.Add(id)) {
			return false
		}
		ok := fOk.IsOk(id)
		if ok {
			fOk.MustAdd(id)
		}
		if !filterCheck(s, w, "IsOk+MustAdd", mOk, id, ok) {
			return false
		}
	}
	return true
}

// filterExhaustive enumerates every arrival order of length 6 over an alphabet of 6 (windows up
// to 128) or 4 boundary ids: 46656 or 4096 histories; every shorter one is a prefix of them.
func filterExhaustive(s *simrt.Sim, w uint64) {
	s.Probe("c04.mode.exhaustive6")
	ring := uint64(64)
	for ring < w+63 {
		ring *= 2
	}
	base := util.Pick(s, []uint64{0, 0, 1, 64, ring, ring - 1, 1 << 32, math.MaxUint64 - 2*ring - 2*w})
	pool := []uint64{0, 1, 2, w - 1, w, w + 1, 62, 63, 64, 65, 2 * w, ring - 1, ring, ring + 1, 127, 128, 2*ring - 1, 2 * ring, ring + w, ring + w - 1}
	// 6 symbols for small windows, 4 for the large ones (their ring clearing is ~30x dearer)
	na := 6
	if w > 128 {
		na = 4
	}
	var alpha [6]uint64
	for i := 0; i < na; {
		x := base + pool[s.Choose(len(pool))]
		dup := false
		for j := 0; j < i; j++ {
			dup = dup || alpha[j] == x
		}
		if !dup {
			alpha[i] = x
			i++
		} else if s.GenChance(8) {
			// the tape keeps proposing duplicates (a zeroed tape does): fill deterministically
			alpha[i] = base + 3000 + uint64(i)
			i++
		}
	}
	const depth = 6
	total := 1
	for k := 0; k < depth; k++ {
		total *= na
	}
	var seq [depth]int
	for n := 0; n < total; n++ {
		for k, v := 0, n; k < depth; k, v = k+1, v/na {
			seq[k] = v % na
		}
		f := ss2022.NewSlidingWindowFilter(w)
		var delivered [6]bool
		has, mx := false, uint64(0)
		for k := 0; k < depth; k++ {
			id := alpha[seq[k]]
			got := f.Add(id)
			switch {
			case delivered[seq[k]]:
				if got {
					s.Fail("c04.filter.delivered-twice{Add}", "SlidingWindowFilter(size %d): in the arrival order %v counter %d was accepted twice", w, describeSeq(alpha, seq[:k+1]), id)
					return
				}
			case !has || id > mx || mx-id < w:
				if !got {
					s.Fail("c04.filter.fresh-refused{exhaustive,Add}", "SlidingWindowFilter(size %d): in the arrival order %v counter %d was refused although it was never accepted and is ahead of or fewer than %d behind the maximum %d", w, describeSeq(alpha, seq[:k+1]), id, w, mx)
					return
				}
			}
			if got {
				delivered[seq[k]] = true
				if !has || id > mx {
					has, mx = true, id
				}
			}
		}
	}
}

func describeSeq(alpha [6]uint64, seq []int) []uint64 {
	out := make([]uint64, len(seq))
	for i, k := range seq {
		out[i] = alpha[k]
	}
	return out
}

// --- transport ------------------------------------------------------------------------------

func (e *env) setupNet() (finish func()) {
	s := e.s
	w := simnet.W(s)
	w.UDPDupP = util.Pick(s, []int{0, 32, 96})
	w.UDPDelayP = util.Pick(s, []int{0, 64, 160})
	w.UDPLatency = util.Pick(s, []time.Duration{0, time.Millisecond})
	w.UDPCorruptP = util.Pick(s, []int{0, 0, 12})
	w.UDPDropP = util.Pick(s, []int{0, 0, 16})
	w.UDPDelayMenu = []time.Duration{time.Millisecond, 5 * time.Millisecond, 50 * time.Millisecond, time.Second, 2 * time.Second, 31 * time.Second}
	a := w.AddHost("sender", netip.MustParseAddr("10.0.2.1"), netip.MustParseAddr("fd00:2::1"))
	b := w.AddHost("receiver", netip.MustParseAddr("10.0.1.1"), netip.MustParseAddr("fd00:1::1"))
	rx := b.ListenUDP(netip.Addr{}, 8388)
	tx := a.ListenUDP(netip.Addr{}, 40001)
	dst := netip.AddrPortFrom(b.IP4, 8388)
	senderDone := false
	rxDone := false
	s.Go("receiver", func() {
		defer func() { rxDone = true }()
		buf := make([]byte, 4096)
		for !s.Failed() {
			rx.SetReadDeadline(time.Now().Add(40 * time.Second))
			n, _, err := rx.ReadFromUDPAddrPort(buf)
			if err != nil {
				if senderDone {
					return
				}
				continue
			}
			e.arrive(append([]byte(nil), buf[:n]...))
		}
	})
	e.send = func(m *pktMeta) {
		if _, err := tx.WriteToUDPAddrPort(m.data, dst); err != nil {
			s.HarnessError("simnet write: %v", err)
		}
	}
	return func() {
		senderDone = true
		s.WaitFor("receiver drained", 10*time.Minute, func() bool { return rxDone })
		rx.Close()
		tx.Close()
	}
}

// --- real receivers -------------------------------------------------------------------------

type unpacked struct {
	ok      bool
	err     error
	payload []byte
	addr    socksAddr
}

func (e *env) unpackAtServer(data []byte) unpacked {
	front := e.s.Choose(3) * 17
	buf := make([]byte, front+len(data)+e.s.Choose(2)*16)
	copy(buf[front:], data)
	pkt := buf[front : front+len(data)]
	csid, err := e.srv.SessionInfo(pkt)
	if err != nil {
		return unpacked{err: err}
	}
	unp, known := e.table[csid]
	if !known {
		unp, _, err = e.srv.NewUnpacker(pkt, csid)
		if err != nil {
			return unpacked{err: err}
		}
	}
	ta, ps, pl, err := unp.UnpackInPlace(buf, cliAddrPort, front, len(data))
	if err != nil {
		return unpacked{err: err}
	}
	if !known {
		e.table[csid] = unp // the relay stores the session after the first successful unpack
	}
	return unpacked{ok: true, payload: buf[ps : ps+pl], addr: socksOfConnAddr(ta)}
}

func (e *env) unpackAtClient(data []byte) unpacked {
	front := e.s.Choose(3) * 17
	buf := make([]byte, front+len(data)+e.s.Choose(2)*16)
	copy(buf[front:], data)
	src, ps, pl, err := e.cunp.UnpackInPlace(buf, srvAddrPort, front, len(data))
	if err != nil {
		return unpacked{err: err}
	}
	return unpacked{ok: true, payload: buf[ps : ps+pl], addr: socksFromIP(src.Addr().Unmap(), src.Port())}
}

// arrive hands one datagram to the real receiver and judges the verdict.
func (e *env) arrive(data []byte) {
	s := e.s
	if s.Failed() {
		return
	}
	m := e.metaByData[e.key(data)]
	if m == nil {
		m = &pktMeta{kind: "net-corrupt", data: data}
		s.Logf("net-corrupt datagram of %d bytes: %s", len(data), e.nearest(data))
	}
	// identity-header bytes altered in flight: the server reads them only when it opens a session
	eihAltered := string(m.data) != string(data)
	now := time.Now()
	if m.authentic && tsClass(m.ts, now) == tsFresh {
		m.sess.arrivals = append(m.sess.arrivals, m.id)
	}
	var exp expect
	var class, why string
	if e.client {
		exp, class, why = e.expectClient(m, now)
	} else {
		exp, class, why = e.expectServer(m, now)
	}
	var u unpacked
	if e.client {
		u = e.unpackAtClient(data)
	} else {
		u = e.unpackAtServer(data)
	}
	s.Logf("arrive %s id=%d ok=%v", m.kind, m.id, u.ok)
	if eihAltered && exp == mustAccept {
		s.Probe("c04.net.eih-altered")
		exp = dontCare
	}
	switch {
	case exp == mustReject && u.ok:
		s.Fail(class, "%s; it was delivered (window %d, %s)", why, e.w, e.describe(m))
		return
	case exp == mustAccept && !u.ok:
		s.Fail(class, "%s; it was refused with %q (window %d, %s)", why, u.err, e.w, e.describe(m))
		return
	}
	if !u.ok {
		return
	}
	// delivered: it must be an authentic packet, unchanged
	if !m.authentic {
		s.Fail("c04.bad-accepted{"+m.kind+"}", "a %s packet was delivered (%s)", m.kind, e.describe(m))
		return
	}
	if string(u.payload) != string(m.payload) || string(u.addr) != string(m.addr) {
		s.Fail("c04.delivered-changed", "packet id %d was delivered with payload/address different from what was sent (%d vs %d payload bytes, addr %x vs %x)", m.id, len(u.payload), len(m.payload), u.addr, m.addr)
		return
	}
	e.accepted++
	e.deliveredBytes[e.key(data)] = true
	if e.client {
		e.onClientAccept(m, now)
	}
	m.sess.model.record(m.id)
}

// nearest says how an unknown datagram differs from the known one closest to it (diagnostics).
func (e *env) nearest(data []byte) string {
	bestKey, bestDiff, desc := "", 1<<30, "no known datagram resembles it"
	for _, m := range e.metaByData {
		n := min(len(m.data), len(data))
		diff, first := 0, -1
		for i := 0; i < n; i++ {
			if m.data[i] != data[i] {
				diff++
				if first < 0 {
					first = i
				}
			}
		}
		diff += max(len(m.data), len(data)) - n
		if diff < bestDiff || diff == bestDiff && string(m.data) < bestKey {
			bestKey, bestDiff = string(m.data), diff
			desc = fmt.Sprintf("closest known datagram: kind %s id %d len %d, %d byte(s) differ, first at offset %d", m.kind, m.id, len(m.data), diff, first)
		}
	}
	return desc
}

// key identifies a datagram. The identity header of a client packet (bytes 16..32 with a
// multi-user server) is outside the AEAD and is read only for the first packet of a session, so
// two datagrams that differ only there are the same packet.
func (e *env) key(data []byte) string {
	if !e.client && e.multi && len(data) >= 32 {
		return string(data[:16]) + string(data[32:])
	}
	return string(data)
}

func (e *env) describe(m *pktMeta) string {
	if m.sess == nil {
		return "kind " + m.kind
	}
	return fmt.Sprintf("kind %s, session #%d real=%v, packet id %d, session maximum %d (has=%v), timestamp offset %+d s", m.kind, m.sess.idx, m.sess.real, m.id, m.sess.model.max, m.sess.model.has, m.ts-time.Now().Unix())
}

// replayAndTimestamp is the part of the oracle shared by both directions: at-most-once by
// exact bytes, timestamp validity.
func (e *env) replayAndTimestamp(m *pktMeta, now time.Time) (expect, string, string, bool) {
	s := e.s
	if !m.authentic {
		e.hostile++
		return mustReject, "c04.bad-accepted{" + m.kind + "}", fmt.Sprintf("a %s packet must be dropped", m.kind), true
	}
	if e.deliveredBytes[e.key(m.data)] {
		e.hostile++
		s.Probe("c04.atk.exact-replay")
		return mustReject, "c04.delivered-twice{exact}", fmt.Sprintf("packet id %d had been delivered before and the identical datagram arrived again", m.id), true
	}
	switch tsClass(m.ts, now) {
	case tsStale:
		e.hostile++
		s.Probe("c04.v.reject.stale")
		return mustReject, "c04.bad-accepted{stale}", fmt.Sprintf("packet id %d carries a timestamp %d s away from the receiver's clock", m.id, m.ts-now.Unix()), true
	case tsBand:
		s.Probe("c04.v.ts-band")
		return dontCare, "", "", true
	}
	return dontCare, "", "", false
}

// expectServer: what the property demands of the server for this arrival.
func (e *env) expectServer(m *pktMeta, now time.Time) (expect, string, string) {
	if exp, class, why, done := e.replayAndTimestamp(m, now); done {
		return exp, class, why
	}
	return e.windowRule(m, now)
}

func (e *env) windowRule(m *pktMeta, now time.Time) (expect, string, string) {
	s := e.s
	md := m.sess.model
	probeID(s, md, m.id)
	exp, rel := md.judge(m.id)
	switch exp {
	case mustReject:
		e.hostile++
		s.Probe("c04.v.reject.replay")
		return mustReject, "c04.delivered-twice{id}", fmt.Sprintf("packet id %d of this session had been delivered before", m.id)
	case mustAccept:
		s.Probe("c04.v.accept." + rel)
		if d := m.ts - now.Unix(); d == 30 || d == -30 {
			s.Probe("c04.v.accept.skewed-30s")
		}
		return mustAccept, "c04.fresh-refused{" + rel + "}", fmt.Sprintf("packet id %d was never delivered and is %s relative to the newest delivered id", m.id, rel)
	}
	s.Probe("c04.v.behind-window")
	return dontCare, "", ""
}

// expectClient: what the property demands of the client for this arrival.
//
//   - at most once: by identical datagram always; by packet id while the model still holds the
//     session as current or previous;
//   - current session: window rule as on the server;
//   - previous session: never twice (above); delivery of fresh ones is not demanded;
//   - any other session id: first session ever -> must be accepted; a change less than 60 s after
//     an accepted change -> must be refused; more than 60 s after the last establishment, change
//     or previous-session packet -> must be accepted; otherwise not judged.
func (e *env) expectClient(m *pktMeta, now time.Time) (expect, string, string) {
	s := e.s
	if exp, class, why, done := e.replayAndTimestamp(m, now); done {
		return exp, class, why
	}
	ps := m.sess
	switch ps {
	case e.cur:
		return e.windowRule(m, now)
	case e.old:
		if ps.model.delivered[m.id] {
			e.hostile++
			s.Probe("c04.cli.old-session-replay-rejected")
			return mustReject, "c04.delivered-twice{old-session}", fmt.Sprintf("packet id %d of the previous server session had been delivered before (session changed %v ago)", m.id, now.Sub(e.lastChange))
		}
		return dontCare, "", ""
	}
	if ps.model.has {
		s.Probe("c04.cli.forgotten-session-packet")
	}
	switch {
	case e.cur == nil:
		return mustAccept, "c04.fresh-refused{first-session}", fmt.Sprintf("packet id %d is the first authentic server packet this client session sees", m.id)
	case !e.hasChange:
		// the first change of the server session is never "more than one per minute"
		s.Probe("c04.cli.first-change-must-accept")
		return mustAccept, "c04.fresh-refused{first-session-change}", fmt.Sprintf("packet id %d opens the first server-session change this client sees (%v after the session was established); only further changes within a minute may be refused", m.id, now.Sub(e.lastEvent))
	case e.hasChange && now.Sub(e.lastChange) < time.Minute:
		s.Probe("c04.cli.change-refused<60s")
		e.hostile++
		return mustReject, "c04.session-change-too-fast", fmt.Sprintf("a second server-session change %v after the previous one", now.Sub(e.lastChange))
	case now.Sub(e.lastEvent) > time.Minute:
		s.Probe("c04.cli.change-must-accept")
		return mustAccept, "c04.fresh-refused{new-session}", fmt.Sprintf("packet id %d opens a new server session %v after the last establishment/change/previous-session packet", m.id, now.Sub(e.lastEvent))
	}
	return dontCare, "", ""
}

func (e *env) onClientAccept(m *pktMeta, now time.Time) {
	s := e.s
	ps := m.sess
	switch ps {
	case e.cur:
	case e.old:
		s.Probe("c04.cli.old-session-accepted")
		e.lastEvent = now
	default:
		// the client adopted this session; what it knew about an even older session is gone,
		// and a session it had forgotten starts from scratch
		ps.model = newSessModel(e.w)
		ps.gen.m = ps.model
		if e.cur != nil {
			s.Probe("c04.cli.change-accepted")
			e.hasChange = true
			e.lastChange = now
		} else {
			s.Probe("c04.cli.established")
		}
		e.old = e.cur
		e.cur = ps
		e.lastEvent = now
	}
}
