package c04

import (
	"math"
	"time"

	"verifsim/sim/simrt"
)

// --- reference model of one replay-protected session ----------------------------------------

type expect int

const (
	dontCare expect = iota
	mustAccept
	mustReject
)

// sessModel is the reference: the set of delivered packet ids and their maximum.
type sessModel struct {
	w         uint64
	has       bool
	max       uint64
	delivered map[uint64]bool
}

func newSessModel(w uint64) *sessModel {
	return &sessModel{w: w, delivered: map[uint64]bool{}}
}

// judge says what the property demands for an authentic, fresh-timestamped packet with this id.
func (m *sessModel) judge(id uint64) (expect, string) {
	switch {
	case m.delivered[id]:
		return mustReject, "replay"
	case !m.has:
		return mustAccept, "first"
	case id > m.max:
		return mustAccept, "ahead"
	case m.max-id < m.w:
		return mustAccept, "in-window"
	default:
		return dontCare, "behind-window"
	}
}

func (m *sessModel) record(id uint64) {
	m.delivered[id] = true
	if !m.has || id > m.max {
		m.has, m.max = true, id
	}
}

// --- timestamp classes ----------------------------------------------------------------------

const (
	tsFresh = iota // within 30 s under every rounding of "now"
	tsBand         // inside the granularity band: not judged
	tsStale        // more than 30 s off under every rounding
)

func tsClass(ts int64, now time.Time) int {
	f := now.Unix()
	c := f
	if now.Nanosecond() > 0 {
		c = f + 1
	}
	if ts > c+1000 || ts < f-1000 {
		return tsStale
	}
	abs := func(x int64) int64 {
		if x < 0 {
			return -x
		}
		return x
	}
	d1, d2 := abs(ts-f), abs(ts-c)
	switch {
	case max(d1, d2) <= 30:
		return tsFresh
	case min(d1, d2) >= 31:
		return tsStale
	default:
		return tsBand
	}
}

// --- packet id history generator ------------------------------------------------------------

// idGen produces packet ids in arrival order with a bias to the boundaries named by the
// property: 0, 64-bit block edges, multiples of plausible ring sizes, the window edge and 2^64-1.
type idGen struct {
	s    *simrt.Sim
	w    uint64
	cap  uint64 // ids are < cap when cap > 0 (sessions fed by a real packer start at 0)
	sent []uint64
	m    *sessModel
}

func satAdd(a, b uint64) uint64 {
	if a > math.MaxUint64-b {
		return math.MaxUint64
	}
	return a + b
}

func satSub(a, b uint64) uint64 {
	if b > a {
		return 0
	}
	return a - b
}

var ringMenu = []uint64{64, 128, 256, 512, 1024, 2048, 4096}

func (g *idGen) clamp(id uint64) uint64 {
	if g.cap > 0 && id >= g.cap {
		return g.cap - 1
	}
	return id
}

func (g *idGen) anchor() uint64 {
	s, w := g.s, g.w
	if g.cap > 0 {
		menu := []uint64{0, 0, 1, 62, 63, 64, 65, 127, 128, 129, w - 1, w, w + 1, 255, 256, 257, g.cap - 1}
		return g.clamp(menu[s.Choose(len(menu))])
	}
	// the top of the id space is absorbing (nothing is newer than 2^64-1): go there rarely
	// in the middle of a history, more often at its start
	pTop := 12
	if len(g.sent) == 0 {
		pTop = 48
	}
	if s.GenChance(pTop) {
		const top = math.MaxUint64
		menu := []uint64{top, top, top - 1, top - 63, top - 64, top - 65, top - (w - 1), top - w, top - w - 1, top - 2048, top - 2*w - 70}
		return menu[s.Choose(len(menu))]
	}
	menu := []uint64{0, 0, 1, 62, 63, 64, 65, 127, 128, 129, w - 1, w, w + 1, 2047, 2048, 2049,
		1<<32 - 1, 1 << 32, 1<<32 + 1, 1<<63 - 1, 1 << 63, 1<<63 + 1}
	return menu[s.Choose(len(menu))]
}

func (g *idGen) ahead(base uint64) uint64 {
	s, w := g.s, g.w
	menu := []uint64{1, 1, 2, 62, 63, 64, 65, w - 1, w, w + 1, 2 * w, 127, 128, 129, 1023, 1024, 1025, 2047, 2048, 2049, 4096, 1 << 32, 0}
	d := menu[s.Choose(len(menu))]
	if d == 0 {
		d = uint64(1 + s.Choose(5000))
	}
	return g.clamp(satAdd(base, d))
}

func (g *idGen) behind(base uint64) uint64 {
	s, w := g.s, g.w
	menu := []uint64{0, 1, 1, 2, w - 2, w - 1, w - 1, w, w, w + 1, 62, 63, 64, 65, 2 * w, math.MaxUint64}
	d := menu[s.Choose(len(menu))]
	if d == math.MaxUint64 {
		d = uint64(s.Choose(int(2*w + 70)))
	}
	if w == 1 && d > 3 {
		d = uint64(s.Choose(3))
	}
	return g.clamp(satSub(base, d))
}

// next draws the id of the next arrival.
func (g *idGen) next() uint64 {
	s := g.s
	m := g.m
	var id uint64
	if !m.has && len(g.sent) == 0 {
		id = g.anchor()
	} else {
		base := m.max
		if !m.has {
			base = g.sent[len(g.sent)-1]
		}
		switch s.Choose(12) {
		case 0, 1, 2, 3:
			id = g.clamp(satAdd(base, 1))
		case 4:
			id = g.ahead(base)
		case 5, 6:
			id = g.behind(base)
		case 7:
			// something sent before (a duplicate, most of the time)
			id = base
			if len(g.sent) > 0 {
				id = g.sent[len(g.sent)-1-s.ChooseBiased(len(g.sent), 96)]
			}
		case 8:
			id = g.anchor()
		case 9:
			// anywhere in the window
			id = g.clamp(satSub(base, uint64(s.Choose(int(g.w)))))
		case 10:
			// around the next multiple of a ring/block size
			r := ringMenu[s.Choose(len(ringMenu))]
			edge := (base/r + 1) * r
			if edge < base { // wrapped
				edge = math.MaxUint64
			}
			id = g.clamp(satSub(satAdd(edge, uint64(s.Choose(3))), 1))
		default:
			// an id skipped earlier: the smallest undelivered one in the window
			lo := satSub(base, g.w-1)
			id = base
			for x, n := lo, 0; x < base && n < 1100; x, n = x+1, n+1 {
				if !m.delivered[x] {
					id = x
					break
				}
			}
			id = g.clamp(id)
		}
	}
	g.sent = append(g.sent, id)
	return id
}

// attackID draws the packet id an attacker's packet claims: ids whose (wrong) acceptance or
// recording would disturb later verdicts.
func (g *idGen) attackID() uint64 {
	s, m := g.s, g.m
	base := m.max
	if !m.has {
		return g.anchor()
	}
	switch s.Choose(8) {
	case 0, 1:
		return g.clamp(satAdd(base, 1))
	case 2:
		return g.clamp(satAdd(base, g.w))
	case 3:
		return g.ahead(base)
	case 4:
		if g.cap > 0 {
			return g.cap - 1
		}
		return math.MaxUint64
	case 5:
		return g.clamp(satSub(base, uint64(s.Choose(int(g.w)))))
	case 6:
		return base
	default:
		return g.behind(base)
	}
}

// probeID counts the boundary classes an id falls into.
func probeID(s *simrt.Sim, m *sessModel, id uint64) {
	if id == 0 {
		s.Probe("c04.id.zero")
	}
	if id == math.MaxUint64 {
		s.Probe("c04.id.max-u64")
	}
	switch id % 64 {
	case 63, 0, 1:
		s.Probe("c04.id.block-edge")
	}
	// the ring is some power of two not smaller than window+63 bits
	ring := uint64(64)
	for ring < m.w+63 {
		ring *= 2
	}
	if id >= ring && (id%ring == 0 || id%ring == ring-1) {
		s.Probe("c04.id.ring-wrap")
	}
	if m.has && id <= m.max {
		switch d := m.max - id; {
		case d == m.w-1:
			s.Probe("c04.id.window-edge-inside")
		case d == m.w:
			s.Probe("c04.id.window-edge-outside")
		}
	}
	if m.has && id > m.max && id-m.max >= ring {
		s.Probe("c04.id.jump>=ring")
	}
}
