package c04

import (
	"context"
	"fmt"
	"math"
	"net/netip"
	"time"

	"github.com/database64128/shadowsocks-go/conn"
	"github.com/database64128/shadowsocks-go/ss2022"
	"github.com/database64128/shadowsocks-go/zerocopy"

	"verifsim/props/util"
)

var attackKinds = []string{"forged-body", "forged-tag", "forged-sep", "stale", "wrong-type", "wrong-type-layout",
	"foreign-key", "foreign-sid", "truncated", "garbage", "unknown-user", "wrong-csid"}

var sleepMenuServer = []time.Duration{time.Second, time.Second, 5 * time.Second, 29 * time.Second, 30 * time.Second, 31 * time.Second, 61 * time.Second, 500 * time.Millisecond, 1}
var sleepMenuClient = []time.Duration{time.Second, 5 * time.Second, 29 * time.Second, 30 * time.Second, 31 * time.Second, 59 * time.Second, time.Minute, time.Minute + 1, 61 * time.Second, 61 * time.Second, 2 * time.Minute, 500 * time.Millisecond}

func (e *env) newPayload() []byte { return e.newPayloadMax(1200) }

func (e *env) newPayloadMax(limit int) []byte {
	n := util.Pick(e.s, []int{0, 1, 16, 64, 300, 1200})
	if n > limit {
		n = limit
	}
	b := make([]byte, n)
	e.payloadCtr++
	util.Fill(b, 0xc04<<40|e.payloadCtr, 0)
	return b
}

func (e *env) register(m *pktMeta) *pktMeta {
	e.metaByData[e.key(m.data)] = m
	if m.kind == "genuine" {
		e.allSent = append(e.allSent, m)
		m.sess.byID[m.id] = m
	}
	return m
}

func (e *env) clientCipherConfig(k *keys) *ss2022.ClientCipherConfig {
	var ipsks [][]byte
	if e.multi {
		ipsks = [][]byte{e.ipsk}
	}
	ccc, err := ss2022.NewClientCipherConfig(k.psk, ipsks, true)
	if err != nil {
		e.s.HarnessError("client cipher config: %v", err)
		return nil
	}
	return ccc
}

func (e *env) realClientSession(k *keys) (zerocopy.UDPClientSession, bool) {
	ccc := e.clientCipherConfig(k)
	if ccc == nil {
		return zerocopy.UDPClientSession{}, false
	}
	cl := ss2022.NewUDPClient("c04", "ip", conn.AddrFromIPPort(srvAddrPort), 1500, conn.DefaultUDPClientListenConfig, e.w, ccc, e.pad)
	_, sess, err := cl.NewSession(context.Background())
	if err != nil {
		e.s.Fail("c04.error{new-session}", "UDPClient.NewSession: %v", err)
		return sess, false
	}
	return sess, true
}

func (e *env) drawTarget() conn.Addr {
	s := e.s
	port := util.Pick(s, []uint16{53, 443, 1, 65535})
	switch s.Choose(3) {
	case 0:
		return conn.AddrFromIPAndPort(netip.AddrFrom4([4]byte{192, 0, 2, byte(1 + s.Choose(200))}), port)
	case 1:
		return conn.AddrFromIPAndPort(netip.MustParseAddr("2001:db8::1"), port)
	default:
		return conn.MustAddrFromDomainPort(util.Domain(s, 1+s.Choose(40)), port)
	}
}

// --- building datagrams ---------------------------------------------------------------------

func (e *env) tsNow(off int64) int64 { return time.Now().Unix() + off }

func (e *env) drawPad() int { return util.Pick(e.s, []int{0, 0, 0, 1, 17, 900}) }

// packRealClient makes the real client packer produce packets until the one with id exists.
func (e *env) packRealClient(ps *peerSess, id uint64) *pktMeta {
	s := e.s
	for ps.byID[id] == nil {
		if uint64(len(ps.packed)) > ps.gen.cap+1 {
			s.HarnessError("real client packer never produced packet id %d", id)
			return nil
		}
		payload := e.newPayloadMax(64)
		h := ps.cpack.ClientPackerInfo().Headroom
		if len(e.scratch) < h.Front+64+h.Rear {
			e.scratch = make([]byte, h.Front+64+h.Rear)
		}
		b := e.scratch[:h.Front+len(payload)+h.Rear]
		copy(b[h.Front:], payload)
		_, start, ln, err := ps.cpack.PackInPlace(context.Background(), b, ps.target, h.Front, len(payload))
		if err != nil {
			s.Fail("c04.error{client-pack}", "client PackInPlace: %v", err)
			return nil
		}
		data := append([]byte(nil), b[start:start+ln]...)
		sid, pid := ps.k.peekClient(data)
		if len(ps.packed) == 0 {
			ps.sid = sid
		} else if sid != ps.sid {
			s.Fail("c04.error{client-pack}", "the client packer changed its session id between packets")
			return nil
		}
		m := e.register(&pktMeta{kind: "genuine", authentic: true, sess: ps, id: pid, ts: time.Now().Unix(), payload: payload, addr: socksOfConnAddr(ps.target), data: data})
		ps.packed = append(ps.packed, m)
	}
	return ps.byID[id]
}

func (e *env) packRealServer(ps *peerSess, id uint64) *pktMeta {
	s := e.s
	for ps.byID[id] == nil {
		if uint64(len(ps.packed)) > ps.gen.cap+1 {
			s.HarnessError("real server packer never produced packet id %d", id)
			return nil
		}
		payload := e.newPayloadMax(64)
		h := ps.spack.ServerPackerInfo().Headroom
		if len(e.scratch) < h.Front+64+h.Rear {
			e.scratch = make([]byte, h.Front+64+h.Rear)
		}
		b := e.scratch[:h.Front+len(payload)+h.Rear]
		copy(b[h.Front:], payload)
		start, ln, err := ps.spack.PackInPlace(b, ps.source, h.Front, len(payload), 1452)
		if err != nil {
			s.Fail("c04.error{server-pack}", "server PackInPlace: %v", err)
			return nil
		}
		data := append([]byte(nil), b[start:start+ln]...)
		sid, pid := ps.k.peekServer(data)
		if len(ps.packed) == 0 {
			ps.sid = sid
		} else if sid != ps.sid {
			s.Fail("c04.error{server-pack}", "the server packer changed its session id between packets")
			return nil
		}
		m := e.register(&pktMeta{kind: "genuine", authentic: true, sess: ps, id: pid, ts: time.Now().Unix(), payload: payload, addr: socksFromIP(ps.source.Addr(), ps.source.Port()), data: data})
		ps.packed = append(ps.packed, m)
	}
	return ps.byID[id]
}

// build encodes one datagram of session ps with the independent encoder.
func (e *env) build(ps *peerSess, kind string, authentic bool, id uint64, ts int64, mutC func(*clientMsg), mutS func(*serverMsg)) *pktMeta {
	payload := e.newPayload()
	m := &pktMeta{kind: kind, authentic: authentic, sess: ps, id: id, ts: ts, payload: payload}
	if e.client {
		m.addr = socksFromIP(ps.source.Addr(), ps.source.Port())
		sm := serverMsg{ssid: ps.sid, spid: id, typ: typeServer, ts: ts, csid: e.csid, pad: e.drawPad(), src: m.addr, payload: payload}
		if mutS != nil {
			mutS(&sm)
		}
		m.data = ps.k.encodeServer(sm)
	} else {
		m.addr = socksOfConnAddr(ps.target)
		cm := clientMsg{sid: ps.sid, pid: id, typ: typeClient, ts: ts, pad: e.drawPad(), addr: m.addr, payload: payload}
		if mutC != nil {
			mutC(&cm)
		}
		m.data = ps.k.encodeClient(cm)
	}
	return m
}

// ensureSID makes sure the session id of a real-packer session is known.
func (e *env) ensureSID(ps *peerSess) bool {
	if !ps.real || len(ps.packed) > 0 {
		return true
	}
	if e.client {
		return e.packRealServer(ps, 0) != nil
	}
	return e.packRealClient(ps, 0) != nil
}

// genuine sends the next packet of the session's arrival history.
func (e *env) genuine(ps *peerSess, tsOff int64) {
	s := e.s
	id := ps.gen.next()
	var m *pktMeta
	switch {
	case ps.real && e.client:
		m = e.packRealServer(ps, id)
	case ps.real:
		m = e.packRealClient(ps, id)
	case ps.byID[id] != nil && s.GenChance(160):
		m = ps.byID[id] // the identical datagram again
	default:
		m = e.register(e.build(ps, "genuine", true, id, e.tsNow(tsOff), nil, nil))
	}
	if m == nil {
		return
	}
	ps.sent = true
	e.send(m)
}

func flipBit(e *env, data []byte, lo, hi int) {
	if hi <= lo {
		lo, hi = 0, len(data)
	}
	if hi <= lo {
		return
	}
	data[lo+e.s.Choose(hi-lo)] ^= 1 << uint(e.s.Choose(8))
}

// keepOriginal registers the authentic datagram a forgery is about to be derived from: a network
// fault (bit flip, appended byte) can undo the forgery, and what arrives then is an authentic
// packet to be judged as one.
func (e *env) keepOriginal(m *pktMeta) {
	o := *m
	o.kind = "genuine"
	o.authentic = true
	o.data = append([]byte(nil), m.data...)
	if _, dup := e.metaByData[e.key(o.data)]; !dup {
		e.metaByData[e.key(o.data)] = &o
	}
}

// attack builds and sends one attacker packet in the name of session ps.
func (e *env) attack(ps *peerSess) {
	s := e.s
	if !e.ensureSID(ps) {
		return
	}
	kind := attackKinds[s.Choose(len(attackKinds))]
	if kind == "unknown-user" && (e.client || !e.multi) {
		kind = "foreign-key"
	}
	if kind == "wrong-csid" && !e.client {
		kind = "foreign-sid"
	}
	if kind == "foreign-key" && e.client {
		kind = "wrong-csid"
	}
	id := ps.gen.attackID()
	if ps.model.has && id > ps.model.max && id-ps.model.max >= e.w {
		s.Probe("c04.atk.ahead-of-window")
	}
	hdr := 16
	if e.multi && !e.client {
		hdr = 32
	}
	now := e.tsNow(0)
	var m *pktMeta
	switch kind {
	case "forged-body":
		m = e.build(ps, kind, false, id, now, nil, nil)
		e.keepOriginal(m)
		flipBit(e, m.data, hdr, len(m.data)-16)
	case "forged-tag":
		m = e.build(ps, kind, false, id, now, nil, nil)
		e.keepOriginal(m)
		flipBit(e, m.data, len(m.data)-16, len(m.data))
	case "forged-sep":
		m = e.build(ps, kind, false, id, now, nil, nil)
		e.keepOriginal(m)
		flipBit(e, m.data, 0, 16)
	case "stale":
		ts := now + util.Pick(s, []int64{-31, 31, -31, 31, -32, 32, -60, 61, -3600, 3600, -86400 * 365})
		switch s.Choose(8) {
		case 0:
			ts = 0
		case 1:
			ts = math.MaxInt64
		case 2:
			ts = math.MinInt64
		case 3:
			ts = -1
		}
		m = e.build(ps, kind, true, id, ts, nil, nil) // authentic; only the timestamp rule applies
	case "wrong-type":
		m = e.build(ps, kind, false, id, now, func(c *clientMsg) { c.typ = typeServer }, func(sm *serverMsg) { sm.typ = typeClient })
	case "wrong-type-layout":
		m = e.build(ps, kind, false, id, now, func(c *clientMsg) { c.typ = typeServer; c.serverLayout = true }, func(sm *serverMsg) { sm.typ = typeClient; sm.clientLayout = true })
	case "foreign-key":
		other := make([]byte, len(ps.k.psk))
		s.RandBytes(other)
		if len(e.users) > 1 && s.GenChance(160) {
			for _, u := range e.users {
				if u != ps.k {
					other = u.psk
					break
				}
			}
		}
		m = e.build(ps, kind, false, id, now, func(c *clientMsg) { c.bodyKey = other }, nil)
	case "foreign-sid":
		var sid [8]byte
		s.RandBytes(sid[:])
		for _, o := range e.sessions {
			if o != ps && o.sent && s.GenChance(160) {
				sid = o.sid
				break
			}
		}
		if sid == ps.sid {
			sid[0] ^= 1
		}
		m = e.build(ps, kind, false, id, now, func(c *clientMsg) { c.bodySID = &sid }, func(sm *serverMsg) { sm.bodySID = &sid })
	case "wrong-csid":
		csid := e.csid
		if s.GenChance(128) {
			s.RandBytes(csid[:])
		} else {
			csid[7] ^= 1
		}
		m = e.build(ps, kind, false, id, now, nil, func(sm *serverMsg) { sm.csid = csid })
	case "truncated":
		m = e.build(ps, kind, false, id, now, nil, nil)
		e.keepOriginal(m)
		n := util.Pick(s, []int{0, 1, 15, 16, 17, 31, 32, 33, hdr + 15, hdr + 16, len(m.data) - 1, len(m.data) - 16, len(m.data) - 17})
		if n >= len(m.data) {
			n = len(m.data) - 1
		}
		if n < 0 {
			n = 0
		}
		m.data = m.data[:n]
	case "garbage":
		m = &pktMeta{kind: kind, sess: ps, id: id, data: make([]byte, s.Choose(81))}
		s.RandBytes(m.data)
	case "unknown-user":
		var h [16]byte
		s.RandBytes(h[:])
		var sid [8]byte
		s.RandBytes(sid[:])
		tmp := &peerSess{idx: -1, sid: sid, k: ps.k, model: ps.model, gen: ps.gen, target: ps.target, source: ps.source}
		m = e.build(tmp, kind, false, id, now, func(c *clientMsg) { c.userHash = &h }, nil)
		m.sess = ps
	}
	s.Probe("c04.atk." + kind)
	e.atkKinds[kind] = true
	s.Fault("attack." + kind)
	e.metaByData[e.key(m.data)] = m
	e.send(m)
}

// exactReplay re-sends a datagram that was sent before.
func (e *env) exactReplay() bool {
	if len(e.allSent) == 0 {
		return false
	}
	k := len(e.allSent) - 1 - e.s.ChooseBiased(len(e.allSent), 96)
	e.send(e.allSent[k])
	return true
}

// --- server mode: client sessions against the real server ----------------------------------

func (e *env) newPeer(idx int) *peerSess {
	s := e.s
	ps := &peerSess{idx: idx, k: e.users[s.Choose(len(e.users))], model: newSessModel(e.w), byID: map[uint64]*pktMeta{}}
	ps.gen = &idGen{s: s, w: e.w, m: ps.model}
	ps.target = e.drawTarget()
	ps.source = netip.AddrPortFrom(netip.AddrFrom4([4]byte{198, 51, 100, byte(1 + s.Choose(200))}), util.Pick(s, []uint16{53, 443, 65535}))
	if s.GenChance(128) {
		ps.source = netip.AddrPortFrom(netip.MustParseAddr("2001:db8::53"), 53)
	}
	ps.real = s.GenChance(96)
	if ps.real {
		s.Probe("c04.src.real")
		ps.gen.cap = e.w + 264
	} else {
		s.Probe("c04.src.harness")
		s.RandBytes(ps.sid[:])
	}
	return ps
}

func (e *env) runServerMode(n int) {
	s := e.s
	nSess := 1 + s.ChooseBiased(3, 128)
	for i := 0; i < nSess; i++ {
		ps := e.newPeer(i)
		if ps.real {
			sess, ok := e.realClientSession(ps.k)
			if !ok {
				return
			}
			ps.cpack = sess.Packer
		}
		e.sessions = append(e.sessions, ps)
	}
	pick := func() *peerSess { return e.sessions[s.ChooseBiased(len(e.sessions), 160)] }
	for i := 0; i < n && !s.Failed(); i++ {
		switch s.Choose(16) {
		case 9:
			if e.exactReplay() {
				break
			}
			fallthrough
		default:
			e.genuine(pick(), 0)
		case 10, 11:
			e.attack(pick())
		case 12:
			// a clock-skewed but still acceptable sender
			ps := pick()
			off := util.Pick(s, []int64{-30, 30, -29, 29, -1, 1})
			if ps.real {
				off = 0
			}
			e.genuine(ps, off)
		case 13, 14:
			s.Sleep(sleepMenuServer[s.Choose(len(sleepMenuServer))])
		}
	}
}

// --- client mode: server sessions against the real client unpacker -------------------------

func (e *env) runClientMode(n int) {
	s := e.s
	user := e.users[s.Choose(len(e.users))]
	sess, ok := e.realClientSession(user)
	if !ok {
		return
	}
	e.cunp = sess.Unpacker

	// Learn the client session id from a packet of the real client packer, and let the real
	// server open the session so that real server packers can be created for it.
	target := e.drawTarget()
	h := sess.Packer.ClientPackerInfo().Headroom
	b := make([]byte, h.Front+8+h.Rear)
	_, start, ln, err := sess.Packer.PackInPlace(context.Background(), b, target, h.Front, 8)
	if err != nil {
		s.Fail("c04.error{client-pack}", "client PackInPlace: %v", err)
		return
	}
	e.csid, _ = user.peekClient(b[start : start+ln])
	pkt := b[start : start+ln]
	csid, err := e.srv.SessionInfo(pkt)
	if err != nil {
		s.Fail("c04.error{setup}", "SessionInfo on a genuine packet: %v", err)
		return
	}
	if csid != u64(e.csid) {
		s.Fail("c04.error{setup}", "SessionInfo returned session id %#x, the packet carries %#x", csid, u64(e.csid))
		return
	}
	srvUnp, _, err := e.srv.NewUnpacker(pkt, csid)
	if err != nil {
		s.Fail("c04.error{setup}", "NewUnpacker on a genuine packet: %v", err)
		return
	}
	if _, _, _, err = srvUnp.UnpackInPlace(b, cliAddrPort, start, ln); err != nil {
		s.Fail("c04.error{setup}", "server UnpackInPlace of a genuine first packet: %v", err)
		return
	}

	const maxSess = 6
	newSession := func() *peerSess {
		ps := e.newPeer(len(e.sessions))
		ps.k = user
		if ps.real {
			sp, err := srvUnp.NewPacker()
			if err != nil {
				s.Fail("c04.error{setup}", "NewPacker: %v", err)
				return nil
			}
			ps.spack = sp
		}
		e.sessions = append(e.sessions, ps)
		return ps
	}
	active := newSession()
	if active == nil {
		return
	}
	for i := 0; i < n && !s.Failed(); i++ {
		switch s.Choose(18) {
		case 8:
			// an earlier server session: late packets and replays
			k := len(e.sessions) - 1 - s.ChooseBiased(len(e.sessions), 64)
			if k == len(e.sessions)-1 && k > 0 {
				k--
			}
			e.genuine(e.sessions[k], 0)
		case 9:
			if len(e.sessions) < maxSess {
				if active = newSession(); active == nil {
					return
				}
			}
			e.genuine(active, 0)
		case 10:
			if e.exactReplay() {
				break
			}
			fallthrough
		default:
			off := int64(0)
			if !active.real && s.GenChance(24) {
				off = util.Pick(s, []int64{-30, 30, -29, 29, -1, 1})
			}
			e.genuine(active, off)
		case 11, 12:
			ps := e.sessions[len(e.sessions)-1-s.ChooseBiased(len(e.sessions), 128)]
			if s.GenChance(64) {
				// a session id the client has never seen: nothing bad may make it adopt it
				ps = e.newPeer(-1)
				ps.k = user
				ps.real = false
				ps.gen.cap = 0
				ps.throw = true
				s.RandBytes(ps.sid[:])
				s.Probe("c04.atk.new-ssid")
			}
			e.attack(ps)
		case 13, 14, 15, 16:
			s.Sleep(sleepMenuClient[s.Choose(len(sleepMenuClient))])
		}
	}
}

var _ = fmt.Sprint
