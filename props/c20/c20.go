// Package c20 checks: a crash or write failure while saving credentials never destroys the store.
//
// Wiring as in C08 (props/c08/rig): a real cred.Manager on a store file of the simulated disk,
// bound to real ss2022 servers, changed through the api/ssm handlers. One sequential API client
// applies 1-6 generated changes (add / rotate / delete, no duplicate keys) with sleeps around the
// 5 s save cool-down. Three kinds of run:
//
//	fault     one disk fault from the tape: kind kill | enospc | eio, at mutating disk operation
//	          #AtOp (every open/write/sync/close/rename of every save), after Bytes bytes of the
//	          write (0, 1, len-1, len, anything). Afterwards (immediately, or at the end of the
//	          workload) the process is abandoned, a NEW manager is started on what is on the disk:
//	          it must load, its user set must be one of the sets between the last one the harness
//	          saw completely persisted and the newest one requested, the keys that complete a
//	          real handshake must be exactly that set, and the API must keep working.
//	shutdown  fault-free disk; the context given to Manager.Start is cancelled and Manager.Stop
//	          called at a drawn point of the debounce (just acknowledged / cooling down / at the
//	          instant of the save / idle), also while further changes are in flight. When Stop
//	          returns the file must hold every change acknowledged before the shutdown began.
//	power     like fault with a power loss (unsynced data and directory operations may be lost).
//	          The repository promises no fsync, so these runs only count outcomes (probes
//	          c20.power.*); they never fail the check.
package c20

import (
	"encoding/json"
	"fmt"
	"os"
	"sort"
	"strings"
	"time"

	"verifsim/props/c08/rig"
	"verifsim/props/core"
	"verifsim/props/util"
	"verifsim/sim/simos"
	"verifsim/sim/simrt"
)

func init() {
	core.Register(&core.Prop{
		ID:           "C20",
		Run:          Run,
		MaxSteps:     200000,
		YieldFiles:   []string{"cred/manager.go"},
		QuickRuns:    12000,
		ThoroughSecs: 400,
		Rule: "one run = (kind fault 45% | shutdown 35% | power 20%, key size, store configuration, 0-4 initial users, 1-6 API changes with sleeps from {0,1ms,1s,4.999s,5s,5.001s,6s}) " +
			"plus, for fault/power runs, one fault plan (kind, mutating-operation index 0..13, byte count at 0/1/len-1/len/len+1/arbitrary of a predicted document, restart " +
			"immediately or at the end) and, for shutdown runs, the change after which and the delay after which the context is cancelled and Stop called; one seeded " +
			"schedule with statement-level pre-emption in cred/manager.go (select order seeded per run); non-trivial = the planned fault fired and the restart was " +
			"judged, or Stop was called with at least one change acknowledged before; distinct = distinct (kind, fault kind, operation hit, byte bucket, save number, " +
			"users before/after, restart timing | shutdown phase, changes acknowledged, in-flight change, save-after-cancel) shape",
		Real: []string{"cred (Manager Start/Stop, dequeueSave, saveToFile, LoadFromFile, RegisterServer, API mutations)", "api/ssm handlers", "ss2022 servers and clients for the handshake probes", "encoding/json"},
		Stub: []string{"disk (simos: operations numbered, one planned kill/power/ENOSPC/EIO fault, kill and power survivor sets)", "process death (the old manager is abandoned: its context cancelled, its goroutines end at their next disk operation)", "clock (synctest)", "sync.Mutex/RWMutex (simsync)", "kernel TCP (simnet)", "crypto/rand (seeded PRNG)"},
		Assumptions: []string{
			"a write is cut at a byte boundary; completed system calls survive a kill",
			"ENOSPC/EIO are reported by the failing call (short write + error); no silent corruption",
			"the set found after a restart may be any of the sets between the last one observed completely on disk and the newest requested one (the statement's 'previous or new')",
			"power loss is outside the asserted part (no fsync promise in the repository): explored and counted only",
		},
		ExpectProbes: []string{
			"c20.fault.kill", "c20.fault.enospc", "c20.fault.eio", "c20.fault.hit.open", "c20.fault.hit.write", "c20.fault.hit.close",
			"c20.fault.bytes=0", "c20.fault.bytes=1", "c20.fault.bytes=len-1", "c20.fault.bytes>=len", "c20.fault.bytes=mid",
			"c20.fault.save#1", "c20.fault.save#2+", "c20.restart.immediately", "c20.restart.at-end", "c20.restart.judged", "c20.restart.old-set", "c20.restart.new-set",
			"c20.restart.users=0", "c20.restart.api-add-ok", "c20.fault.not-reached",
			"c20.stop.just-acked", "c20.stop.cooling", "c20.stop.save-instant", "c20.stop.idle", "c20.stop.change-in-flight", "c20.stop.inline", "c20.stop.targeted", "c20.stop.save-after-cancel", "c20.stop.judged",
			"c20.power.fired", "c20.power.old-or-new",
		},
	})
}

const (
	kFault = iota
	kShutdown
	kPower
)

type change struct {
	op    string // add | update | delete
	user  string
	key   int
	sleep time.Duration
}

type run struct {
	s  *simrt.Sim
	r  *rig.Rig
	in *rig.Instance

	keys    [][]byte
	keyIdx  map[string]int
	sets    []string // canonical user set after i changes
	changes []change

	invoked int // changes whose API call was started
	acked   int // changes whose API call returned 2xx
	lo      int // index of the oldest set that may legitimately be on the disk
	stop    bool
	onAck   func(n int)
	refused string
	chStr   string
}

func canon(m map[string]int) string {
	names := make([]string, 0, len(m))
	for n := range m {
		names = append(names, n)
	}
	sort.Strings(names)
	var b strings.Builder
	for i, n := range names {
		if i > 0 {
			b.WriteByte(';')
		}
		fmt.Fprintf(&b, "%s=%d", n, m[n])
	}
	return b.String()
}

func (c *run) canonBytes(users map[string][]byte) string {
	m := map[string]int{}
	for n, k := range users {
		ki, ok := c.keyIdx[string(k)]
		if !ok {
			ki = -2
		}
		m[n] = ki
	}
	return canon(m)
}

func (c *run) newKey(keyLen int) int {
	k := make([]byte, keyLen)
	c.s.RandBytes(k)
	c.keys = append(c.keys, k)
	c.keyIdx[string(k)] = len(c.keys) - 1
	return len(c.keys) - 1
}

// docLen predicts the length of the document a save of the given set writes (used only to aim
// the fault at interesting byte counts).
func (c *run) docLen(m map[string]int) int {
	x := map[string][]byte{}
	for n, k := range m {
		x[n] = c.keys[k]
	}
	b, _ := json.MarshalIndent(x, "", "    ")
	return len(b) + 1
}

var sleepMenu = []time.Duration{0, 0, time.Millisecond, time.Second, 4999 * time.Millisecond, 5 * time.Second, 5001 * time.Millisecond, 6 * time.Second}

// Run is one simulated run.
func Run(s *simrt.Sim) {
	c := &run{s: s, keyIdx: map[string]int{}}
	kind := [...]int{kFault, kFault, kFault, kFault, kFault, kFault, kFault, kFault, kFault, kShutdown, kShutdown, kShutdown, kShutdown, kShutdown, kShutdown, kShutdown, kPower, kPower, kPower, kPower}[s.Choose(20)]
	if v := os.Getenv("VERIF_C20_KIND"); v != "" && v != fmt.Sprint(kind) {
		return // triage aid: VERIF_C20_KIND=n executes only the runs that draw kind n
	}
	keyLen := util.Pick(s, []int{16, 32})
	stores := s.Choose(3)
	s.PSwitch = util.Pick(s, []int{8, 64, 160, 255})
	s.YieldP = util.Pick(s, []int{0, 32, 128, 255})
	s.YieldMax = util.Pick(s, []int{2, 8, 24})

	names := []string{"u1", "u2", "u3", "u4", "u5"}
	cur := map[string]int{}
	nInit := s.Choose(5)
	for i := 0; i < nInit; i++ {
		cur[names[i]] = c.newKey(keyLen)
	}
	c.sets = append(c.sets, canon(cur))
	lens := []int{c.docLen(cur)}
	nCh := 1 + s.Choose(6)
	for i := 0; i < nCh; i++ {
		var absent, present []string
		for _, n := range names {
			if _, ok := cur[n]; ok {
				present = append(present, n)
			} else {
				absent = append(absent, n)
			}
		}
		ch := change{sleep: util.Pick(s, sleepMenu)}
		switch op := s.Choose(3); {
		case (op == 0 || len(present) == 0) && len(absent) > 0:
			ch.op, ch.user, ch.key = "add", absent[s.Choose(len(absent))], c.newKey(keyLen)
			cur[ch.user] = ch.key
		case op == 1 || len(absent) == 0 && op == 0:
			ch.op, ch.user, ch.key = "update", present[s.Choose(len(present))], c.newKey(keyLen)
			cur[ch.user] = ch.key
		default:
			ch.op, ch.user, ch.key = "delete", present[s.Choose(len(present))], -1
			delete(cur, ch.user)
		}
		c.changes = append(c.changes, ch)
		c.sets = append(c.sets, canon(cur))
		lens = append(lens, c.docLen(cur))
	}

	c.r = rig.New(s, keyLen, stores)
	fs := c.r.FS
	initUsers := map[string][]byte{}
	for n, k := range parseCanon(c.sets[0]) {
		initUsers[n] = c.keys[k]
	}
	if len(initUsers) == 0 && s.GenChance(128) {
		// a freshly provisioned store: an empty file (it loads as an empty user set)
		fs.Put(rig.Path, nil)
		s.Probe("c20.initial-zero-byte-store")
	} else {
		fs.Put(rig.Path, rig.Doc(initUsers, 0))
	}

	kindName := [...]string{"fault", "shutdown", "power"}[kind]
	s.Param("kind", kindName)
	s.Param("key", fmt.Sprint(keyLen*8))
	s.Param("stores", rig.StoreName(stores))
	s.Param("initial", "{"+c.sets[0]+"}")
	c.describeChanges()
	s.Param("sched", fmt.Sprintf("pswitch=%d yieldP=%d yieldMax=%d", s.PSwitch, s.YieldP, s.YieldMax))

	in, err := c.r.Boot()
	if s.Failed() {
		return
	}
	if err != nil {
		s.HarnessError("the initial store document was refused: %v", err)
		return
	}
	c.in = in

	if kind == kShutdown {
		c.runShutdown(nInit)
		return
	}
	c.runFault(kind == kPower, lens, nInit)
}

func (c *run) describeChanges() {
	var chs []string
	for _, ch := range c.changes {
		chs = append(chs, fmt.Sprintf("+%v %s(%s)", ch.sleep, ch.op, ch.user))
	}
	c.chStr = strings.Join(chs, ", ")
	c.s.Param("changes", c.chStr)
}

func parseCanon(u string) map[string]int {
	m := map[string]int{}
	if u == "" {
		return m
	}
	for _, p := range strings.Split(u, ";") {
		i := strings.LastIndex(p, "=")
		var k int
		fmt.Sscanf(p[i+1:], "%d", &k)
		m[p[:i]] = k
	}
	return m
}

// client applies the generated changes in order.
func (c *run) client(done *bool) {
	s := c.s
	defer func() { *done = true }()
	for i, ch := range c.changes {
		if ch.sleep > 0 {
			s.Sleep(ch.sleep)
		}
		c.observe()
		if c.stop || s.Failed() {
			return
		}
		c.invoked = i + 1
		var code int
		var body string
		switch ch.op {
		case "add":
			code, body = c.in.Add(ch.user, c.keys[ch.key])
		case "update":
			code, body = c.in.Update(ch.user, c.keys[ch.key])
		default:
			code, body = c.in.Delete(ch.user)
		}
		s.Logf("change %d %s(%s) -> %d", i, ch.op, ch.user, code)
		if c.stop {
			return // the process this call belonged to is gone; the answer does not count
		}
		if !rig.OK(code) {
			c.refused = fmt.Sprintf("change #%d %s(%s) was refused with %d %s although it is valid in the sequential history", i+1, ch.op, ch.user, code, body)
			s.Fail("c20.valid-change-refused", "%s", c.refused)
			return
		}
		c.acked = i + 1
		if c.onAck != nil {
			c.onAck(i + 1)
			if c.stop {
				return
			}
		}
		c.observe()
	}
}

// observe raises lo when the disk holds a complete document of one of the requested sets.
func (c *run) observe() {
	fs := c.r.FS
	if fs.Plan.Fired || fs.Crashed || c.stop {
		return
	}
	content, ok := fs.Visible(rig.Path)
	if !ok {
		return
	}
	users, err := rig.ParseStore(content)
	if err != nil {
		return // a save is rewriting the file right now
	}
	cu := c.canonBytes(users)
	for j := c.lo; j <= c.invoked && j < len(c.sets); j++ {
		if c.sets[j] == cu {
			c.lo = j
			return
		}
	}
}

func (c *run) allowed(lo, hi int) (vals []string) {
	for j := lo; j <= hi && j < len(c.sets); j++ {
		vals = append(vals, "{"+c.sets[j]+"}")
	}
	return
}

func clip(b []byte) string {
	if len(b) > 160 {
		return fmt.Sprintf("%q… (%d bytes)", b[:160], len(b))
	}
	return fmt.Sprintf("%q (%d bytes)", b, len(b))
}

// --- fault and power runs -----------------------------------------------------------------------

func (c *run) runFault(power bool, lens []int, nInit int) {
	s := c.s
	fs := c.r.FS
	fkind := "power"
	if !power {
		fkind = util.Pick(s, []string{"kill", "enospc", "eio"})
	}
	atOp := s.Choose(14)
	// byte count: aimed at the boundaries of one of the documents this run will write
	L := lens[1+s.Choose(len(lens)-1)]
	nbytes := 0
	switch s.Choose(7) {
	case 0:
		nbytes = 0
	case 1:
		nbytes = 1
	case 2:
		nbytes = L - 1
	case 3:
		nbytes = L
	case 4:
		nbytes = L + 1
	default:
		nbytes = s.Choose(L + 2)
	}
	restartEarly := s.GenChance(160)
	fs.Plan = simos.FaultPlan{AtOp: atOp, Kind: fkind, Bytes: nbytes}
	s.Param("fault", fmt.Sprintf("%s at mutating op #%d after %d bytes; restart early=%v", fkind, atOp, nbytes, restartEarly))

	clientDone := false
	s.Go("api-client", func() { c.client(&clientDone) })
	trigger := func() bool {
		return fs.Crashed || (restartEarly && fs.Plan.Fired) || s.Failed()
	}
	s.WaitFor("client done or fault", 2*time.Hour, func() bool { return clientDone || trigger() })
	if s.Failed() {
		return
	}
	if !trigger() {
		// the client is done: let the pending save(s) run
		for round := 0; round < 4; round++ {
			before := fs.Ops()
			s.WaitFor("settle", 6*time.Second, trigger)
			c.observe()
			if trigger() || fs.Ops() == before {
				break
			}
		}
	}
	if s.Failed() {
		return
	}

	fired := fs.Plan.Fired
	firedOp := fs.Plan.FiredOp
	hi := c.invoked
	lo := c.lo
	c.stop = true
	opsBefore := fs.Ops()

	// --- the old process ends ------------------------------------------------------------------
	var survivors map[string][]byte
	if power {
		survivors = fs.SurvivorsPower()
	} else {
		survivors = fs.SurvivorsKill()
	}
	fs.Crashed = true // whatever the old process still does to the disk does not happen
	c.in.Cancel()
	s.YieldP = 0
	s.Sleep(time.Millisecond)
	fs.Reset(survivors)

	if !fired {
		s.Probe("c20.fault.not-reached")
	} else {
		if power {
			s.Probe("c20.power.fired")
		} else {
			s.Probe("c20.fault." + fkind)
		}
		opName := strings.SplitN(firedOp, " ", 2)[0]
		s.Probe("c20.fault.hit." + opName)
		bb := "n/a"
		if opName == "write" {
			var n, of int
			if i := strings.Index(firedOp, " after "); i >= 0 {
				fmt.Sscanf(firedOp[i:], " after %d of %d bytes", &n, &of)
			}
			switch {
			case n == 0:
				bb = "0"
			case n == 1:
				bb = "1"
			case n == of-1:
				bb = "len-1"
			case n >= of:
				bb = ">=len"
			default:
				bb = "mid"
			}
			if bb == ">=len" {
				s.Probe("c20.fault.bytes>=len")
			} else {
				s.Probe("c20.fault.bytes=" + bb)
			}
		}
		saveNo := "1"
		if writes := countWrites(fs.Log, opsBefore); writes >= 2 {
			saveNo = "2+"
		}
		s.Probe("c20.fault.save#" + saveNo)
		if restartEarly {
			s.Probe("c20.restart.immediately")
		} else {
			s.Probe("c20.restart.at-end")
		}
		s.ShapeAdd(fmt.Sprintf("%s %s hit=%s bytes=%s save#%s early=%v init=%d hi=%d lo=%d", map[bool]string{false: "fault", true: "power"}[power], fkind, opName, bb, saveNo, restartEarly, nInit, hi, lo))
	}
	s.Logf("restart fired=%v lo=%d hi=%d", fired, lo, hi)

	// --- a new process starts on what is on the disk -------------------------------------------
	content, exists := survivors[rig.Path]
	disc := fkind
	if !fired {
		disc = "no-fault"
	}
	where := "no fault fired"
	if fired {
		where = fkind + " at " + firedOp
	}
	allowed := c.allowed(lo, hi)
	in2, err := c.r.Boot()
	if s.Failed() {
		return
	}
	if power {
		// informational only
		ok := false
		if err == nil && in2 != nil {
			if _, users2, problem := in2.List(); problem == "" {
				got := "{" + c.canonBytes(users2) + "}"
				for _, a := range allowed {
					if a == got {
						ok = true
					}
				}
			}
			in2.Cancel()
		}
		if fired && ok {
			s.Probe("c20.power.old-or-new")
		} else if fired {
			s.Probe("c20.power.unloadable-or-other")
		}
		if fired {
			s.SetNontrivial()
		}
		return
	}
	if !exists {
		s.Fail("c20.store-missing{"+disc+"}", "after %s the store file does not exist; expected one of %v", where, allowed)
		return
	}
	if err != nil {
		s.Fail("c20.store-unloadable{"+disc+"}", "after %s a new manager cannot load the store file: %v; file content %s; the sets that may be on disk are %v (changes: %s)",
			where, err, clip(content), allowed, c.chStr)
		return
	}
	defer in2.Cancel()
	_, users2, problem := in2.List()
	if problem != "" {
		s.Fail("c20.store-partial{"+disc+"}", "after %s the restarted manager's user list is unusable: %s", where, problem)
		return
	}
	got := "{" + c.canonBytes(users2) + "}"
	match := -1
	for j, a := range allowed {
		if a == got {
			match = j
		}
	}
	if match < 0 {
		s.Fail("c20.store-partial{"+disc+"}", "after %s the restarted manager loaded %s from file content %s, which is none of the sets that may be on disk %v (changes: %s)",
			where, got, clip(content), allowed, c.chStr)
		return
	}
	s.Probe("c20.restart.judged")
	if match == 0 {
		s.Probe("c20.restart.old-set")
	}
	if match == len(allowed)-1 && len(allowed) > 1 {
		s.Probe("c20.restart.new-set")
	}
	if len(users2) == 0 {
		s.Probe("c20.restart.users=0")
	}
	// the restarted server accepts exactly the persisted users
	udp := c.r.Stores == rig.UDPOnly || (c.r.Stores == rig.Both && s.GenChance(128))
	for k := range c.keys {
		var res rig.ProbeResult
		if udp {
			res = c.r.ProbeUDP(in2, c.keys[k])
		} else {
			res = c.r.ProbeTCP(in2, c.keys[k])
		}
		if s.Failed() {
			return
		}
		owner := ""
		for n, kk := range users2 {
			if string(kk) == string(c.keys[k]) {
				owner = n
			}
		}
		if res.Accepted != (owner != "") || (res.Accepted && res.User != owner) {
			s.Fail("c20.restart-accepts-wrong-set{"+disc+"}", "after %s the restarted server lists %s but a handshake with key K%d gives accepted=%v user=%q (%s)", where, got, k, res.Accepted, res.User, res.Why)
			return
		}
	}
	// ... and can be managed again
	nk := c.newKey(c.r.KeyLen)
	code, body := in2.Add("after-restart", c.keys[nk])
	if !rig.OK(code) {
		s.Fail("c20.after-restart-unusable{"+disc+"}", "after %s the restarted manager refuses to add a user: %d %s", where, code, body)
		return
	}
	s.Probe("c20.restart.api-add-ok")
	s.Sleep(6 * time.Second)
	after, _ := fs.Visible(rig.Path)
	usersAfter, perr := rig.ParseStore(after)
	want := map[string][]byte{"after-restart": c.keys[nk]}
	for n, k := range users2 {
		want[n] = k
	}
	if perr != nil || c.canonBytes(usersAfter) != c.canonBytes(want) {
		s.Fail("c20.after-restart-unusable{"+disc+"}", "after %s and a restart, a user added through the API is not saved: file %s (%v), expected {%s}", where, clip(after), perr, c.canonBytes(want))
		return
	}
	if fired {
		s.SetNontrivial()
	}
}

func countWrites(log []string, upto int) int {
	n := 0
	for i, l := range log {
		if i >= upto {
			break
		}
		if strings.HasPrefix(l, "write ") {
			n++
		}
	}
	return n
}

// --- shutdown runs ------------------------------------------------------------------------------

func (c *run) runShutdown(nInit int) {
	s := c.s
	fs := c.r.FS
	after := 1 + s.Choose(len(c.changes)) // shutdown begins once this many changes are acknowledged …
	delay := util.Pick(s, sleepMenu)      // … plus this delay
	inline := s.GenChance(96)             // the acknowledged client itself shuts down, without any delay
	aligned := s.GenChance(110)           // the change lands on the instant at which the previous one is saved
	// Half of the runs aim at the narrowest window: the save loop is pre-empted between
	// releasing the lock and looking at its queue (statement-level pre-emption after every
	// statement), the change that waited for the lock completes and its client shuts down.
	targeted := s.GenChance(128) && len(c.changes) >= 2
	if targeted {
		inline, aligned = true, true
		if after < 2 {
			after = 2
		}
		s.YieldP, s.YieldMax = 255, 1
		s.PSwitch = util.Pick(s, []int{32, 16, 64})
	} else {
		s.YieldMax = util.Pick(s, []int{1, 2, 8, 24})
	}
	if inline {
		delay = 0
	}
	if aligned && after >= 2 {
		c.changes[after-1].sleep = 5 * time.Second
		c.changes[after-2].sleep = 6 * time.Second
	} else if aligned {
		c.changes[0].sleep = 0 // right after Start
	}
	c.describeChanges()
	s.Param("shutdown", fmt.Sprintf("after change #%d + %v inline=%v aligned=%v targeted=%v pswitch=%d yieldP=%d yieldMax=%d", after, delay, inline, aligned, targeted, s.PSwitch, s.YieldP, s.YieldMax))
	if targeted {
		s.Probe("c20.stop.targeted")
	}

	var (
		stopped, exists, inflight bool
		acked0, hi                int
		since                     time.Duration
		content                   []byte
		opsAtCancel, opsAtStop    int
		ackTime                   time.Time
	)
	stopNow := func() {
		// shutdown begins
		acked0 = c.acked
		inflight = c.invoked > c.acked
		since = time.Since(ackTime)
		if c.acked > after {
			since = -1 // later changes were acknowledged meanwhile: phase relative to them unknown
		}
		opsAtCancel = fs.Ops()
		c.in.Cancel()
		c.in.M.Stop()
		if s.Dead() {
			return // the run is being torn down; Stop returned because its goroutine was ended
		}
		// Stop returned: the service is "stopped"
		content, exists = fs.Visible(rig.Path)
		hi = c.invoked
		opsAtStop = fs.Ops()
		c.stop = true
		stopped = true
	}
	c.onAck = func(n int) {
		if n == after {
			ackTime = time.Now()
			if inline {
				s.Probe("c20.stop.inline")
				stopNow()
			}
		}
	}

	clientDone := false
	s.Go("api-client", func() { c.client(&clientDone) })
	s.WaitFor("changes acknowledged", 2*time.Hour, func() bool { return stopped || c.acked >= after || clientDone || s.Failed() })
	if s.Failed() {
		return
	}
	if !stopped {
		if c.acked < after {
			s.HarnessError("client ended after %d of %d changes", c.acked, after)
			return
		}
		if delay > 0 {
			s.Sleep(delay)
		} else if s.GenChance(128) {
			simrt.Yield()
		}
		if s.Failed() {
			return
		}
		if !stopped {
			stopNow()
		}
	}
	if s.Failed() {
		return
	}

	phase := "idle"
	switch {
	case since < 0:
		phase = "unknown"
	case since == 0:
		phase = "just-acked"
	case since < 5*time.Second:
		phase = "cooling"
	case since == 5*time.Second:
		phase = "save-instant"
	}
	if phase != "unknown" {
		s.Probe("c20.stop." + phase)
	}
	if inflight {
		s.Probe("c20.stop.change-in-flight")
	}
	if opsAtStop > opsAtCancel {
		s.Probe("c20.stop.save-after-cancel")
	}
	s.ShapeAdd(fmt.Sprintf("shutdown phase=%s acked=%d/%d inflight=%v save-after-cancel=%v init=%d", phase, acked0, len(c.changes), inflight, opsAtStop > opsAtCancel, nInit))
	s.Logf("stop phase=%s acked0=%d hi=%d", phase, acked0, hi)

	allowed := c.allowed(acked0, hi)
	if !exists {
		s.Fail("c20.store-missing{shutdown}", "the store file does not exist when Stop returns")
		return
	}
	users, err := rig.ParseStore(content)
	if err != nil {
		s.Fail("c20.store-partial{shutdown}", "when Stop returns (shutdown began %v after change #%d was acknowledged) the store file is not a complete document: %v; content %s", since, acked0, err, clip(content))
		return
	}
	got := "{" + c.canonBytes(users) + "}"
	ok := false
	for _, a := range allowed {
		if a == got {
			ok = true
		}
	}
	if !ok {
		older := false
		for j := 0; j < acked0; j++ {
			if "{"+c.sets[j]+"}" == got {
				older = true
			}
		}
		if older {
			s.Fail("c20.ack-lost-on-stop", "Stop returned but the store file holds %s: %d changes were acknowledged (2xx) before the context was cancelled (phase %s, %v after the last of them; change in flight: %v), so the file must hold one of %v (changes: %s)",
				got, acked0, phase, since, inflight, allowed, c.chStr)
		} else {
			s.Fail("c20.store-partial{shutdown}", "Stop returned and the store file holds %s, which is none of the sets requested up to now %v", got, c.allowed(0, hi))
		}
		return
	}
	s.Probe("c20.stop.judged")
	// the next start must find it
	fs.Crashed = true
	s.YieldP = 0
	s.Sleep(time.Millisecond)
	fs.Reset(fs.SurvivorsKill())
	in2, err := c.r.Boot()
	if s.Failed() {
		return
	}
	if err != nil {
		s.Fail("c20.store-unloadable{shutdown}", "after a clean shutdown a new manager cannot load the store file: %v; content %s", err, clip(content))
		return
	}
	in2.Cancel()
	if acked0 > 0 {
		s.SetNontrivial()
	}
}
