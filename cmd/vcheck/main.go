// vcheck is the driver of the deterministic-simulation checks.
//
//	vcheck <ID> [--tier quick|thorough] [--seed N] [--runs N] [--budget SECONDS] [--workers N]
//	vcheck <ID> --replay <file>
//	vcheck selftest <ID> [--seeds N]
//
// Every invocation regenerates the overlay from /repo's current working tree, rebuilds the
// worker binary, fans out one worker process per core (each pinned to one P), collects their
// results, confirms every new violation by replaying its minimised tape in a fresh process,
// writes evidence/<ID>.json and exits 0 (held), 1 (violation, with a VIOLATION line) or
// 2 (could not build / harness trouble / determinism mismatch).
package main

import (
	"bytes"
	"encoding/json"
	"flag"
	"fmt"
	"os"
	"os/exec"
	"path/filepath"
	"runtime"
	"sort"
	"strconv"
	"strings"
	"sync"
	"time"

	"verifsim/tools/rewrite"
)

type job struct {
	Mode      string          `json:"mode"`
	Prop      string          `json:"prop"`
	BaseSeed  uint64          `json:"base_seed"`
	Worker    int             `json:"worker"`
	Workers   int             `json:"workers"`
	Runs      int             `json:"runs"`
	DeadlineS float64         `json:"deadline_s"`
	Out       string          `json:"out"`
	Progress  string          `json:"progress"`
	YieldMap  string          `json:"yield_map"`
	ReplayDir string          `json:"replay_dir"`
	Known     []known         `json:"known"`
	Replay    json.RawMessage `json:"replay,omitempty"`
	Seeds     []uint64        `json:"seeds,omitempty"`
	FirstRun  int             `json:"first_run"`
}

type known struct {
	Property string `json:"property"`
	Class    string `json:"class"`
	Match    string `json:"match"`
	Desc     string `json:"description"`
	Status   string `json:"status,omitempty"` // "open" (default) or "fixed: <commit>" — fixed entries suppress nothing
}

type found struct {
	Class   string `json:"class"`
	Msg     string `json:"msg"`
	Seed    uint64 `json:"seed"`
	Run     int    `json:"run"`
	Replay  string `json:"replay"`
	Known   string `json:"known,omitempty"`
	Confirm bool   `json:"confirmed"`
}

type workerOut struct {
	Evaluations int               `json:"evaluations"`
	Nontrivial  int               `json:"nontrivial"`
	Shapes      []uint64          `json:"shapes"`
	Schedules   []uint64          `json:"schedules"`
	Steps       int64             `json:"steps"`
	VirtualNs   int64             `json:"virtual_ns"`
	Faults      map[string]int    `json:"faults"`
	Probes      map[string]int    `json:"probes"`
	CutShort    int               `json:"cut_short"`
	CutReasons  map[string]int    `json:"cut_reasons"`
	Samples     []json.RawMessage `json:"samples"`
	Found       []found           `json:"found"`
	HarnessErrs []string          `json:"harness_errs"`
	Digests     map[string]string `json:"digests"`
	DetChecked  int               `json:"det_checked"`
	DetMismatch []string          `json:"det_mismatch"`
	WallS       float64           `json:"wall_s"`
	ReplayClass string            `json:"replay_class"`
	ReplayMsg   string            `json:"replay_msg"`
	ReplayDig   string            `json:"replay_digest"`
}

type propMeta struct {
	ID           string   `json:"id"`
	QuickRuns    int      `json:"quick_runs"`
	ThoroughSecs int      `json:"thorough_secs"`
	Rule         string   `json:"rule"`
	Real         []string `json:"real"`
	Stub         []string `json:"stub"`
	Assumptions  []string `json:"assumptions"`
	ExpectProbes []string `json:"expect_probes"`
}

const (
	verifDir = "/verif"
	goBin    = "go1.26.8"
)

func repoDir() string {
	if d := os.Getenv("VERIF_REPO_DIR"); d != "" {
		return d
	}
	return "/repo"
}

func die(code int, format string, a ...any) {
	fmt.Fprintf(os.Stderr, "vcheck: "+format+"\n", a...)
	os.Exit(code)
}

func goEnv() []string {
	env := os.Environ()
	env = append(env, "GOFLAGS=-mod=mod", "GOPROXY=off", "GOSUMDB=off", "GOTOOLCHAIN=local", "CGO_ENABLED=0")
	return env
}

// build regenerates the overlay from the current tree and builds the worker binary.
func build(scratch, only string) (bin, yieldMap string) {
	goroot, err := exec.Command(goBin, "env", "GOROOT").Output()
	if err != nil {
		die(2, "cannot run %s: %v", goBin, err)
	}
	res, err := rewrite.Build(rewrite.Options{RepoDir: repoDir(), VerifDir: verifDir, OutDir: filepath.Join(scratch, "ov"), GoRoot: strings.TrimSpace(string(goroot))})
	if err != nil {
		die(2, "overlay generation failed: %v", err)
	}
	bin = filepath.Join(scratch, "worker.test")
	modfile := filepath.Join(verifDir, "go.mod")
	args := []string{"test", "-c", "-vet=off", "-overlay", res.OverlayPath, "-o", bin}
	if only != "" && os.Getenv("VERIF_ONLY") != "" {
		// link only this property's package (others may be under construction)
		args = append(args, "-tags", "only,only_"+strings.ToLower(only))
	}
	if repoDir() != "/repo" {
		// alternate tree (mutant worktree): same module file with the replace target swapped
		data, _ := os.ReadFile(modfile)
		alt := filepath.Join(scratch, "go.mod")
		os.WriteFile(alt, bytes.ReplaceAll(data, []byte("=> /repo"), []byte("=> "+repoDir())), 0o644)
		sum, _ := os.ReadFile(filepath.Join(verifDir, "go.sum"))
		os.WriteFile(filepath.Join(scratch, "go.sum"), sum, 0o644)
		args = append(args, "-modfile", alt)
	}
	args = append(args, "./worker")
	cmd := exec.Command(goBin, args...)
	cmd.Dir = verifDir
	cmd.Env = goEnv()
	outb, err := cmd.CombinedOutput()
	if err != nil {
		die(2, "build of the worker with the overlay failed (the tree no longer compiles against the simulator shims?):\n%s", outb)
	}
	return bin, filepath.Join(scratch, "ov", "rewrite.json")
}

func runWorker(bin string, j job, timeout time.Duration) (*workerOut, string, error) {
	js, _ := json.Marshal(j)
	cmd := exec.Command(bin, "-test.run", "^TestWorker$", "-test.count", "1", "-test.timeout", "0")
	cmd.Env = append(os.Environ(), "VERIF_JOB="+string(js), "GOMAXPROCS=1", "GODEBUG=asyncpreemptoff=1", "GOTRACEBACK=all")
	var stdout, stderr bytes.Buffer
	cmd.Stdout = &stdout
	cmd.Stderr = &stderr
	if err := cmd.Start(); err != nil {
		return nil, "", err
	}
	done := make(chan error, 1)
	go func() { done <- cmd.Wait() }()
	var err error
	select {
	case err = <-done:
	case <-time.After(timeout):
		cmd.Process.Kill()
		<-done
		return nil, stdout.String() + stderr.String(), fmt.Errorf("worker exceeded its wall-clock limit of %v (watchdog)", timeout)
	}
	log := stdout.String() + stderr.String()
	data, rerr := os.ReadFile(j.Out)
	if rerr != nil {
		if err != nil {
			return nil, log, fmt.Errorf("worker died: %v", err)
		}
		return nil, log, rerr
	}
	var out workerOut
	if uerr := json.Unmarshal(data, &out); uerr != nil {
		return nil, log, uerr
	}
	if err != nil {
		return &out, log, fmt.Errorf("worker exited abnormally: %v", err)
	}
	return &out, log, nil
}

func loadKnown() []known {
	data, err := os.ReadFile(filepath.Join(verifDir, "known_findings.json"))
	if err != nil {
		return nil
	}
	var all []known
	if err := json.Unmarshal(data, &all); err != nil {
		die(2, "known_findings.json: %v", err)
	}
	var open []known
	for _, k := range all {
		if !strings.HasPrefix(k.Status, "fixed") {
			open = append(open, k)
		}
	}
	return open
}

func loadMeta(bin, scratch, id string) propMeta {
	cmd := exec.Command(bin, "-test.run", "^TestMeta$", "-test.count", "1")
	metaFile := filepath.Join(scratch, "meta.json")
	cmd.Env = append(os.Environ(), "VERIF_META="+id, "VERIF_META_OUT="+metaFile)
	if out, err := cmd.CombinedOutput(); err != nil {
		die(2, "cannot read property metadata: %v\n%s", err, out)
	}
	data, err := os.ReadFile(metaFile)
	if err != nil {
		die(2, "cannot read property metadata: %v", err)
	}
	var m propMeta
	if err := json.Unmarshal(data, &m); err != nil {
		die(2, "bad metadata: %v", err)
	}
	return m
}

func main() {
	if len(os.Args) < 2 {
		die(2, "usage: vcheck <ID> [--tier quick|thorough] | vcheck <ID> --replay file | vcheck selftest <ID>")
	}
	id := os.Args[1]
	if id == "warmup" {
		scratch, err := os.MkdirTemp("/var/tmp", "vcheck-warmup-")
		if err != nil {
			die(2, "scratch: %v", err)
		}
		build(scratch, "")
		os.RemoveAll(scratch)
		fmt.Println("warm-up build ok")
		return
	}
	if id == "overlay" {
		// vcheck overlay <dir>: only generate the overlay (for `go test -overlay <dir>/ov/overlay.json ./sim/...`)
		if len(os.Args) < 3 {
			die(2, "usage: vcheck overlay <dir>")
		}
		goroot, _ := exec.Command(goBin, "env", "GOROOT").Output()
		res, err := rewrite.Build(rewrite.Options{RepoDir: repoDir(), VerifDir: verifDir, OutDir: filepath.Join(os.Args[2], "ov"), GoRoot: strings.TrimSpace(string(goroot))})
		if err != nil {
			die(2, "%v", err)
		}
		fmt.Println(res.OverlayPath)
		return
	}
	selftest := false
	rest := os.Args[2:]
	if id == "selftest" {
		if len(os.Args) < 3 {
			die(2, "usage: vcheck selftest <ID>")
		}
		selftest = true
		id = os.Args[2]
		rest = os.Args[3:]
	}
	fs := flag.NewFlagSet("vcheck", flag.ExitOnError)
	tier := fs.String("tier", envOr("VERIF_TIER", "quick"), "quick or thorough")
	seedFlag := fs.String("seed", envOr("VERIF_SEED", "1"), "base seed")
	runs := fs.Int("runs", 0, "override the number of runs")
	budget := fs.Float64("budget", 0, "override the time box in seconds (VERIF_BUDGET_S)")
	workers := fs.Int("workers", 0, "worker processes (default: number of CPUs)")
	replay := fs.String("replay", "", "replay file")
	seeds := fs.Int("seeds", 64, "selftest: number of seeds")
	keep := fs.Bool("keep", false, "keep the scratch directory")
	fs.Parse(rest)
	baseSeed, err := strconv.ParseUint(strings.TrimSpace(*seedFlag), 10, 64)
	if err != nil {
		// VERIF_SEED may be any integer; fold negatives
		i, err2 := strconv.ParseInt(strings.TrimSpace(*seedFlag), 10, 64)
		if err2 != nil {
			die(2, "bad seed %q", *seedFlag)
		}
		baseSeed = uint64(i)
	}
	if *budget == 0 {
		if b := os.Getenv("VERIF_BUDGET_S"); b != "" {
			*budget, _ = strconv.ParseFloat(b, 64)
		}
	}
	if *workers == 0 {
		*workers = runtime.NumCPU()
		if w := os.Getenv("VERIF_WORKERS"); w != "" {
			*workers, _ = strconv.Atoi(w)
		}
	}
	id = strings.ToUpper(id)

	// remove scratch directories of earlier invocations that were killed before they could clean up
	if old, _ := filepath.Glob("/var/tmp/vcheck-*"); len(old) > 0 {
		for _, d := range old {
			if fi, err := os.Stat(d); err == nil && time.Since(fi.ModTime()) > 3*time.Hour {
				os.RemoveAll(d)
			}
		}
	}
	scratch, err := os.MkdirTemp("/var/tmp", "vcheck-"+id+"-")
	if err != nil {
		die(2, "scratch: %v", err)
	}
	if !*keep {
		defer os.RemoveAll(scratch)
	}
	exit := func(code int) {
		if !*keep {
			os.RemoveAll(scratch)
		}
		os.Exit(code)
	}
	start := time.Now()
	bin, yieldMap := build(scratch, id)
	buildS := time.Since(start).Seconds()
	meta := loadMeta(bin, scratch, id)
	knownList := loadKnown()

	if *replay != "" {
		data, err := os.ReadFile(*replay)
		if err != nil {
			die(2, "replay: %v", err)
		}
		var rep struct {
			Property string `json:"property"`
			Class    string `json:"class"`
			Digest   string `json:"digest"`
		}
		json.Unmarshal(data, &rep)
		j := job{Mode: "replay", Prop: id, Out: filepath.Join(scratch, "replay.out"), YieldMap: yieldMap, Replay: data}
		out, log, err := runWorker(bin, j, 10*time.Minute)
		fmt.Print(log)
		if err != nil && out == nil {
			fmt.Printf("replay: worker failed: %v\n", err)
			// a process-killing panic in repository code is itself a reproduction
			if strings.Contains(log, "shadowsocks-go") && strings.Contains(log, "panic") && strings.Contains(rep.Class, "panic") {
				fmt.Printf("VIOLATION property=%s replay=%s\n", id, *replay)
				exit(1)
			}
			exit(2)
		}
		if out.ReplayClass == rep.Class && rep.Class != "" {
			fmt.Printf("replay reproduced %s (digest %s, recorded %s): %s\n", out.ReplayClass, out.ReplayDig, rep.Digest, firstLine(out.ReplayMsg))
			fmt.Printf("VIOLATION property=%s replay=%s\n", id, *replay)
			exit(1)
		}
		fmt.Printf("replay did not reproduce %q (got %q)\n", rep.Class, out.ReplayClass)
		exit(0)
	}

	if selftest {
		os.Exit(runSelftest(bin, scratch, yieldMap, id, baseSeed, *seeds, *workers))
	}

	nRuns := meta.QuickRuns
	deadline := 0.0
	if *tier == "thorough" {
		nRuns = 0
		deadline = float64(meta.ThoroughSecs)
		if deadline == 0 {
			deadline = 600
		}
	}
	if *runs > 0 {
		nRuns = *runs
		deadline = 0
	}
	if *budget > 0 {
		deadline = *budget
		if *tier == "thorough" {
			nRuns = 0
		}
	}
	replayDir := filepath.Join(verifDir, "replays")
	os.MkdirAll(replayDir, 0o755)

	type wres struct {
		out *workerOut
		log string
		err error
		j   job
	}
	results := make([]wres, *workers)
	var wg sync.WaitGroup
	limit := 20 * time.Minute
	if deadline > 0 {
		limit = time.Duration(deadline*float64(time.Second)) + 10*time.Minute
	}
	for i := 0; i < *workers; i++ {
		j := job{Mode: "search", Prop: id, BaseSeed: baseSeed, Worker: i, Workers: *workers, Runs: nRuns, DeadlineS: deadline,
			Out: filepath.Join(scratch, fmt.Sprintf("w%d.out", i)), Progress: filepath.Join(scratch, fmt.Sprintf("w%d.progress", i)),
			YieldMap: yieldMap, ReplayDir: replayDir, Known: knownList}
		wg.Add(1)
		go func(i int, j job) {
			defer wg.Done()
			out, log, err := runWorker(bin, j, limit)
			results[i] = wres{out, log, err, j}
		}(i, j)
	}
	wg.Wait()

	// --- aggregate ---
	agg := workerOut{Faults: map[string]int{}, Probes: map[string]int{}, CutReasons: map[string]int{}, Digests: map[string]string{}}
	shapes := map[uint64]struct{}{}
	scheds := map[uint64]struct{}{}
	var allFound []found
	harness := []string{}
	for i, r := range results {
		if r.out == nil {
			// the process died: attribute to the run in progress
			prog, _ := os.ReadFile(r.j.Progress)
			msg := fmt.Sprintf("worker %d died (%v) while executing run/seed %s", i, r.err, strings.TrimSpace(string(prog)))
			if cf := crashFinding(id, r.log, strings.TrimSpace(string(prog)), replayDir, knownList); cf != nil {
				allFound = append(allFound, *cf)
				continue
			}
			harness = append(harness, msg+"\n"+tail(r.log, 60))
			continue
		}
		o := r.out
		agg.Evaluations += o.Evaluations
		agg.Nontrivial += o.Nontrivial
		agg.Steps += o.Steps
		agg.VirtualNs += o.VirtualNs
		agg.CutShort += o.CutShort
		agg.DetChecked += o.DetChecked
		agg.DetMismatch = append(agg.DetMismatch, o.DetMismatch...)
		for k, v := range o.Faults {
			agg.Faults[k] += v
		}
		for k, v := range o.Probes {
			agg.Probes[k] += v
		}
		for k, v := range o.CutReasons {
			agg.CutReasons[k] += v
		}
		for k, v := range o.Digests {
			agg.Digests[k] = v
		}
		for _, s := range o.Shapes {
			shapes[s] = struct{}{}
		}
		for _, s := range o.Schedules {
			scheds[s] = struct{}{}
		}
		if len(agg.Samples) < 3 {
			agg.Samples = append(agg.Samples, o.Samples...)
		}
		allFound = append(allFound, o.Found...)
		harness = append(harness, o.HarnessErrs...)
		if r.err != nil {
			harness = append(harness, fmt.Sprintf("worker %d: %v\n%s", i, r.err, tail(r.log, 40)))
		}
	}

	// cross-process determinism: re-execute the sampled seeds in a fresh process
	if len(agg.Digests) > 0 {
		var ss []uint64
		for k := range agg.Digests {
			v, _ := strconv.ParseUint(k, 10, 64)
			ss = append(ss, v)
		}
		sort.Slice(ss, func(i, j int) bool { return ss[i] < ss[j] })
		if len(ss) > 24 {
			ss = ss[:24]
		}
		j := job{Mode: "digest", Prop: id, Seeds: ss, Out: filepath.Join(scratch, "digest.out"), YieldMap: yieldMap}
		out, log, err := runWorker(bin, j, 10*time.Minute)
		if err != nil || out == nil {
			harness = append(harness, fmt.Sprintf("determinism re-execution failed: %v\n%s", err, tail(log, 30)))
		} else {
			for k, v := range out.Digests {
				agg.DetChecked++
				if agg.Digests[k] != v {
					agg.DetMismatch = append(agg.DetMismatch, fmt.Sprintf("seed %s: digest %s in the search process, %s in a fresh process", k, agg.Digests[k], v))
				}
			}
		}
	}

	// --- verdict ---
	code := 0
	violations := 0
	knownHit := map[string]int{}
	sort.SliceStable(allFound, func(i, j int) bool { return allFound[i].Run < allFound[j].Run })
	reported := map[string]bool{}
	for _, f := range allFound {
		if f.Known != "" {
			knownHit[f.Known]++
			continue
		}
		if reported[f.Class] {
			// one report per violation class and run of the check (the earliest run index)
			continue
		}
		// confirm in a fresh process
		ok := f.Confirm
		if f.Replay != "" && !strings.Contains(f.Class, ".panic-crash") {
			data, _ := os.ReadFile(f.Replay)
			j := job{Mode: "replay", Prop: id, Out: filepath.Join(scratch, "confirm.out"), YieldMap: yieldMap, Replay: data}
			out, _, err := runWorker(bin, j, 10*time.Minute)
			ok = err == nil && out != nil && out.ReplayClass == f.Class
		}
		if !ok {
			harness = append(harness, fmt.Sprintf("violation %s (seed %d) did not reproduce from its replay file %s in a fresh process: not reported as a violation", f.Class, f.Seed, f.Replay))
			continue
		}
		violations++
		reported[f.Class] = true
		fmt.Printf("violation class=%s seed=%d run=%d: %s\n", f.Class, f.Seed, f.Run, firstLine(f.Msg))
		fmt.Printf("VIOLATION property=%s replay=%s\n", id, f.Replay)
		code = 1
	}
	var khKeys []string
	for k := range knownHit {
		khKeys = append(khKeys, k)
	}
	sort.Strings(khKeys)
	for _, k := range knownList {
		if k.Property != id {
			continue
		}
		key := k.Class + " " + k.Match
		fmt.Printf("KNOWN-FINDING: property=%s %s — %s (reproduced %d times in this run)\n", id, k.Class, k.Desc, knownHit[key])
	}
	if len(agg.DetMismatch) > 0 {
		harness = append(harness, "determinism mismatch: "+strings.Join(agg.DetMismatch, "; "))
	}
	var unreached []string
	for _, p := range meta.ExpectProbes {
		if agg.Probes[p] == 0 {
			unreached = append(unreached, p)
		}
	}
	if len(unreached) > 0 {
		fmt.Printf("warning: probes never reached in this run: %s\n", strings.Join(unreached, ", "))
	}
	wall := time.Since(start).Seconds()
	distinct := len(shapes)
	ev := map[string]any{
		"property_id": id,
		"tier":        *tier,
		"seed":        int64(baseSeed & 0x7fffffffffffffff),
		"level":       "exploration",
		"coverage": map[string]any{
			"evaluations":         agg.Evaluations,
			"distinct_nontrivial": distinct,
			"nontrivial_runs":     agg.Nontrivial,
			"rule":                meta.Rule,
			"samples":             agg.Samples,
			"distinct_schedules":  len(scheds),
			"scheduler_steps":     agg.Steps,
			"simulated_time_s":    float64(agg.VirtualNs) / 1e9,
			"runs_per_hour":       float64(agg.Evaluations) / wall * 3600,
			"seeds":               fmt.Sprintf("run i uses seed H(%d, %s, i), i in [0,%d)", baseSeed, id, agg.Evaluations),
			"fault_counts":        agg.Faults,
			"probe_counts":        agg.Probes,
			"unreached_probes":    unreached,
			"runs_cut_by_budget":  agg.CutShort,
			"cut_reasons":         agg.CutReasons,
			"determinism_samples": map[string]any{"checked": agg.DetChecked, "mismatches": len(agg.DetMismatch)},
			"components":          map[string]any{"real": meta.Real, "stub": meta.Stub},
			"known_findings_hit":  knownHit,
			"workers":             *workers,
			"build_s":             buildS,
			"harness_errors":      harness,
			"exhaustive":          false,
		},
		"assumptions": meta.Assumptions,
		"wall_s":      wall,
		"violations":  violations,
	}
	data, _ := json.MarshalIndent(ev, "", " ")
	evDir := filepath.Join(verifDir, "evidence")
	if os.Getenv("VERIF_REPO_DIR") != "" {
		// a run against another tree (a seeded change in a scratch worktree) is not evidence about /repo
		evDir = filepath.Join(os.TempDir(), "vcheck-evidence-other-tree")
	}
	os.MkdirAll(evDir, 0o755)
	if err := os.WriteFile(filepath.Join(evDir, id+".json"), data, 0o644); err != nil {
		die(2, "evidence: %v", err)
	}
	fmt.Printf("%s %s: %d runs (%d non-trivial, %d distinct shapes, %d distinct schedules), %d steps, %.0f s simulated, %.1f s wall, %d violations, %d known findings hit\n",
		id, *tier, agg.Evaluations, agg.Nontrivial, distinct, len(scheds), agg.Steps, float64(agg.VirtualNs)/1e9, wall, violations, len(knownHit))
	if len(harness) > 0 && code == 0 {
		for _, h := range harness {
			fmt.Fprintf(os.Stderr, "harness: %s\n", h)
		}
		code = 2
	}
	if agg.Evaluations == 0 && code == 0 {
		fmt.Fprintln(os.Stderr, "harness: no runs were executed")
		code = 2
	}
	exit(code)
}

// crashFinding turns a worker death caused by a panic in repository code into a finding.
func crashFinding(id, log, prog, replayDir string, knownList []known) *found {
	if !strings.Contains(log, "panic:") && !strings.Contains(log, "fatal error:") {
		return nil
	}
	// first repository frame in the goroutine that panicked
	top := ""
	lines := strings.Split(log, "\n")
	started := false
	for _, l := range lines {
		if strings.HasPrefix(l, "panic:") || strings.HasPrefix(l, "fatal error:") {
			started = true
		}
		if !started || strings.HasPrefix(l, "\t") {
			continue
		}
		if strings.Contains(l, "github.com/database64128/shadowsocks-go") && !strings.Contains(l, "verifsim/") {
			top = l
			if i := strings.LastIndex(top, "("); i > 0 {
				top = top[:i]
			}
			if i := strings.LastIndex(top, "/"); i >= 0 {
				top = top[i+1:]
			}
			break
		}
		if strings.HasPrefix(l, "goroutine ") && top == "" && started && strings.Contains(l, "[") && !strings.Contains(l, "running") {
			break
		}
	}
	if top == "" {
		return nil
	}
	parts := strings.Fields(prog)
	var run int
	var seed uint64
	if len(parts) == 2 {
		run, _ = strconv.Atoi(parts[0])
		seed, _ = strconv.ParseUint(parts[1], 10, 64)
	}
	class := strings.ToLower(id) + ".panic-crash{" + top + "}"
	at := strings.Index(log, "panic:")
	if at < 0 {
		at = strings.Index(log, "fatal error:")
	}
	msg := "process-killing panic in repository code:\n" + head(log[at:], 40)
	f := &found{Class: class, Msg: msg, Seed: seed, Run: run, Confirm: true}
	for _, k := range knownList {
		if k.Property == id && k.Class == class && (k.Match == "" || strings.Contains(msg, k.Match)) {
			f.Known = k.Class + " " + k.Match
		}
	}
	rep := map[string]any{"property": id, "seed": seed, "run_index": run, "class": class, "msg": msg, "from_seed": true,
		"shrink": "process-killing panic: replay re-executes the seed (tapes are regenerated from it)"}
	data, _ := json.MarshalIndent(rep, "", " ")
	name := fmt.Sprintf("%s/%s-%d-%d.json", replayDir, id, seed, run)
	os.WriteFile(name, data, 0o644)
	f.Replay = name
	return f
}

func runSelftest(bin, scratch, yieldMap, id string, baseSeed uint64, n, workers int) int {
	// n seeds, each executed in 3 different processes; digests must agree
	var seeds []uint64
	for i := 0; i < n; i++ {
		seeds = append(seeds, baseSeed*1000003+uint64(i)*7919+1)
	}
	procs := 3
	per := (n + workers - 1) / workers
	type res struct {
		d   map[string]string
		err error
		log string
	}
	all := make([][]res, procs)
	var wg sync.WaitGroup
	sem := make(chan struct{}, workers)
	for p := 0; p < procs; p++ {
		chunks := 0
		for off := 0; off < n; off += per {
			chunks++
		}
		all[p] = make([]res, chunks)
		c := 0
		for off := 0; off < n; off += per {
			end := min(off+per, n)
			ss := seeds[off:end]
			if p == 1 {
				// different order in the second process: position in the process must not matter
				ss = append([]uint64(nil), ss...)
				for i, j := 0, len(ss)-1; i < j; i, j = i+1, j-1 {
					ss[i], ss[j] = ss[j], ss[i]
				}
			}
			wg.Add(1)
			go func(p, c int, ss []uint64) {
				defer wg.Done()
				sem <- struct{}{}
				defer func() { <-sem }()
				j := job{Mode: "digest", Prop: id, Seeds: ss, Out: filepath.Join(scratch, fmt.Sprintf("st-%d-%d.out", p, c)), YieldMap: yieldMap}
				out, log, err := runWorker(bin, j, 20*time.Minute)
				if out != nil {
					all[p][c] = res{out.Digests, err, log}
				} else {
					all[p][c] = res{nil, err, log}
				}
			}(p, c, ss)
			c++
		}
	}
	wg.Wait()
	merged := make([]map[string]string, procs)
	for p := range all {
		merged[p] = map[string]string{}
		for _, r := range all[p] {
			if r.err != nil || r.d == nil {
				fmt.Printf("selftest: worker failed: %v\n%s\n", r.err, tail(r.log, 30))
				return 2
			}
			for k, v := range r.d {
				merged[p][k] = v
			}
		}
	}
	bad := 0
	for k, v := range merged[0] {
		for p := 1; p < procs; p++ {
			if merged[p][k] != v {
				fmt.Printf("selftest: seed %s: digest %s vs %s (process set %d)\n", k, v, merged[p][k], p)
				bad++
			}
		}
	}
	fmt.Printf("selftest %s: %d seeds x %d processes, %d mismatches\n", id, len(merged[0]), procs, bad)
	if bad > 0 {
		return 2
	}
	return 0
}

func envOr(k, d string) string {
	if v := os.Getenv(k); v != "" {
		return v
	}
	return d
}

func firstLine(s string) string {
	if i := strings.Index(s, "\n"); i >= 0 {
		return s[:i]
	}
	return s
}

func tail(s string, n int) string {
	lines := strings.Split(strings.TrimRight(s, "\n"), "\n")
	if len(lines) > n {
		lines = lines[len(lines)-n:]
	}
	return strings.Join(lines, "\n")
}

func head(s string, n int) string {
	lines := strings.Split(s, "\n")
	if len(lines) > n {
		lines = lines[:n]
	}
	return strings.Join(lines, "\n")
}
